//! C07 — numeric result types follow the documented table in every phase.
//!
//! Exhaustive enumeration (no sampling) of operator x operand-form x operand-form expressions up to a nesting
//! bound, each placed in every binding position. Oracle: a transcription of the table in
//! `docs/language/reference/numeric_semantics.md` (function `kind_of`) gives the expected kind T.
//!
//!  leg 1 (in-process, exhaustive): binding the expression to annotation T is accepted by the type checker and
//!        binding it to another kind is rejected (int-kinded expression under a `float` annotation: the docs do not
//!        say whether that widens, so nothing is demanded there; it is counted).
//!  leg 2 (in-process, exhaustive): the lowering + emitter produce Rust for the accepted program.
//!  leg 3 (rustc + run time, batched): values are handed to `want_int / want_float / want_bool`; a disagreement
//!        between the checker's kind and the kind of the emitted Rust expression is a rustc type error, and the
//!        printed value must equal a reference value computed here.
//!
//! Grouping parentheses are known to be lost in emitted Rust (a C01 finding), so leg 3 only uses expressions whose
//! natural precedence already gives the intended grouping ("natural"); legs 1 and 2 use all of them.

use incan::backend::IrCodegen;
use incan::frontend::typechecker::TypeChecker;
use incan::frontend::{lexer, parser};
use rayon::prelude::*;
use serde_json::{json, Value};
use std::collections::{BTreeMap, BTreeSet};
use vcore::farm::{Farm, FarmOut, Mode, Project};
use vcore::{util, Args, Evidence, Outcome};

// ------------------------------------------------------------------------------------------------ model

#[derive(Clone, Copy, PartialEq, Eq, Hash, Debug, PartialOrd, Ord)]
enum K {
    Int,
    Float,
    Bool,
}
impl K {
    fn ann(self) -> &'static str {
        match self {
            K::Int => "int",
            K::Float => "float",
            K::Bool => "bool",
        }
    }
}

#[derive(Clone, Copy, PartialEq, Eq, Hash, Debug, PartialOrd, Ord)]
enum Op {
    Add,
    Sub,
    Mul,
    Div,
    FloorDiv,
    Mod,
    Pow,
    Eq,
    Ne,
    Lt,
    Le,
    Gt,
    Ge,
}
const ARITH: [Op; 7] = [Op::Add, Op::Sub, Op::Mul, Op::Div, Op::FloorDiv, Op::Mod, Op::Pow];
const ALL_OPS: [Op; 13] = [
    Op::Add,
    Op::Sub,
    Op::Mul,
    Op::Div,
    Op::FloorDiv,
    Op::Mod,
    Op::Pow,
    Op::Eq,
    Op::Ne,
    Op::Lt,
    Op::Le,
    Op::Gt,
    Op::Ge,
];
impl Op {
    fn sym(self) -> &'static str {
        match self {
            Op::Add => "+",
            Op::Sub => "-",
            Op::Mul => "*",
            Op::Div => "/",
            Op::FloorDiv => "//",
            Op::Mod => "%",
            Op::Pow => "**",
            Op::Eq => "==",
            Op::Ne => "!=",
            Op::Lt => "<",
            Op::Le => "<=",
            Op::Gt => ">",
            Op::Ge => ">=",
        }
    }
    fn name(self) -> &'static str {
        match self {
            Op::Add => "add",
            Op::Sub => "sub",
            Op::Mul => "mul",
            Op::Div => "div",
            Op::FloorDiv => "floordiv",
            Op::Mod => "mod",
            Op::Pow => "pow",
            Op::Eq => "eq",
            Op::Ne => "ne",
            Op::Lt => "lt",
            Op::Le => "le",
            Op::Gt => "gt",
            Op::Ge => "ge",
        }
    }
    fn is_cmp(self) -> bool {
        matches!(self, Op::Eq | Op::Ne | Op::Lt | Op::Le | Op::Gt | Op::Ge)
    }
    /// binding level in the Incan grammar (parser/expr.rs): comparison 3, additive 4, multiplicative 5, power 6
    fn level(self) -> u8 {
        match self {
            Op::Add | Op::Sub => 4,
            Op::Mul | Op::Div | Op::FloorDiv | Op::Mod => 5,
            Op::Pow => 6,
            _ => 3,
        }
    }
}

#[derive(Clone, Debug, PartialEq)]
enum E {
    Int(i64),
    Float(f64),
    Var(&'static str, K),
    Neg(Box<E>),
    Paren(Box<E>),
    Bin(Box<E>, Op, Box<E>),
}

fn is_local(name: &str) -> bool {
    name.chars().next().is_some_and(|c| c.is_lowercase())
}

fn bin(l: E, op: Op, r: E) -> E {
    E::Bin(Box::new(l), op, Box::new(r))
}

impl E {
    fn level(&self) -> u8 {
        match self {
            E::Bin(_, op, _) => op.level(),
            E::Neg(_) => 7,
            _ => 8,
        }
    }
    /// Render; `natural` is cleared when a grouping parenthesis had to be inserted (an explicit `Paren` leaf around
    /// a literal is not a grouping parenthesis).
    fn render(&self, min: u8, natural: &mut bool) -> String {
        let s = match self {
            E::Int(n) => n.to_string(),
            E::Float(f) => format!("{f:?}"),
            E::Var(n, _) => n.to_string(),
            E::Neg(x) => format!("-{}", x.render(7, natural)),
            E::Paren(x) => return format!("({})", x.render(0, natural)),
            E::Bin(l, op, r) => {
                let (lm, rm) = match op {
                    // power(): unary ** power   (right associative)
                    Op::Pow => (8, 6),
                    // comparison(): no chains are generated
                    o if o.is_cmp() => (4, 4),
                    o => (o.level(), o.level() + 1),
                };
                format!("{} {} {}", l.render(lm, natural), op.sym(), r.render(rm, natural))
            }
        };
        if self.level() < min {
            *natural = false;
            format!("({s})")
        } else {
            s
        }
    }
    fn text(&self) -> String {
        let mut n = true;
        self.render(0, &mut n)
    }
    fn is_natural(&self) -> bool {
        let mut n = true;
        self.render(0, &mut n);
        n
    }
    fn depth(&self) -> usize {
        match self {
            E::Bin(l, _, r) => 1 + l.depth().max(r.depth()),
            E::Neg(x) | E::Paren(x) => x.depth(),
            _ => 0,
        }
    }
    fn has_var(&self) -> bool {
        match self {
            // upper-case names are module-level consts (CI, CJ, CN, CF, CG), not variables
            E::Var(n, _) => is_local(n),
            E::Bin(l, _, r) => l.has_var() || r.has_var(),
            E::Neg(x) | E::Paren(x) => x.has_var(),
            _ => false,
        }
    }
    fn has_paren(&self) -> bool {
        match self {
            E::Paren(_) => true,
            E::Bin(l, _, r) => l.has_paren() || r.has_paren(),
            E::Neg(x) => x.has_paren(),
            _ => false,
        }
    }
    /// short name of the operand form, used in signatures
    fn form(&self) -> String {
        match self {
            E::Int(_) => "intlit".into(),
            E::Float(_) => "floatlit".into(),
            E::Var(n, K::Int) if !is_local(n) => if *n == "CN" { "negintconst".into() } else { "intconst".into() },
            E::Var(n, _) if !is_local(n) => "floatconst".into(),
            E::Var(_, K::Int) => "intvar".into(),
            E::Var(_, _) => "floatvar".into(),
            E::Neg(x) => format!("neg-{}", x.form()),
            E::Paren(x) => format!("paren-{}", x.form()),
            E::Bin(_, op, _) => format!("nested-{}", op.name()),
        }
    }
}

/// Is this expression "an int literal" for the purpose of the `**` rule, and what is its value?
/// `paren_is_literal`: whether a parenthesised literal counts (the docs do not say; calibrated from the checker
/// and then demanded of every phase).
fn int_literal_value(e: &E, paren_is_literal: bool) -> Option<i64> {
    match e {
        E::Int(n) => Some(*n),
        E::Neg(x) => match &**x {
            E::Int(n) => Some(-n),
            _ => None,
        },
        E::Paren(x) if paren_is_literal => int_literal_value(x, paren_is_literal),
        _ => None,
    }
}

/// Transcription of docs/language/reference/numeric_semantics.md ("Returns" of every operator section).
fn kind_of(e: &E, pil: bool) -> K {
    match e {
        E::Int(_) => K::Int,
        E::Float(_) => K::Float,
        E::Var(_, k) => *k,
        E::Neg(x) | E::Paren(x) => kind_of(x, pil),
        E::Bin(l, op, r) => {
            let (lk, rk) = (kind_of(l, pil), kind_of(r, pil));
            match op {
                // "Division is always float, even for int / int."
                Op::Div => K::Float,
                // "// : int if both operands are int, otherwise float"; same for %; promotion rule for + - *
                Op::Add | Op::Sub | Op::Mul | Op::FloorDiv | Op::Mod => {
                    if lk == K::Float || rk == K::Float {
                        K::Float
                    } else {
                        K::Int
                    }
                }
                // "int only for int ** <non-negative int literal>, otherwise float"
                Op::Pow => {
                    if lk == K::Int && rk == K::Int && int_literal_value(r, pil).is_some_and(|v| v >= 0) {
                        K::Int
                    } else {
                        K::Float
                    }
                }
                // "The result type is bool."
                _ => K::Bool,
            }
        }
    }
}

#[derive(Clone, Copy, Debug, PartialEq)]
enum V {
    I(i64),
    F(f64),
    B(bool),
}

const VA: i64 = 13;
const VB: i64 = 5;
const VX: f64 = 6.5;
const VY: f64 = 2.5;

/// Reference value (None = outside the domain: overflow, zero divisor, non-finite).
fn eval(e: &E, pil: bool) -> Option<V> {
    Some(match e {
        E::Int(n) => V::I(*n),
        E::Float(f) => V::F(*f),
        E::Var(n, _) => match *n {
            "CI" => V::I(3),
            "CJ" => V::I(2),
            "CN" => V::I(-2),
            "CF" => V::F(2.5),
            "CG" => V::F(1.5),
            "a" => V::I(VA),
            "b" => V::I(VB),
            "x" => V::F(VX),
            _ => V::F(VY),
        },
        E::Paren(x) => eval(x, pil)?,
        E::Neg(x) => match eval(x, pil)? {
            V::I(n) => V::I(n.checked_neg()?),
            V::F(f) => V::F(-f),
            V::B(_) => return None,
        },
        E::Bin(l, op, r) => {
            let (lv, rv) = (eval(l, pil)?, eval(r, pil)?);
            let k = kind_of(e, pil);
            let f = |v: V| match v {
                V::I(n) => n as f64,
                V::F(f) => f,
                V::B(_) => f64::NAN,
            };
            if op.is_cmp() {
                let c = match (lv, rv) {
                    (V::I(a), V::I(b)) => a.partial_cmp(&b),
                    _ => f(lv).partial_cmp(&f(rv)),
                }?;
                return Some(V::B(match op {
                    Op::Eq => c.is_eq(),
                    Op::Ne => c.is_ne(),
                    Op::Lt => c.is_lt(),
                    Op::Le => c.is_le(),
                    Op::Gt => c.is_gt(),
                    _ => c.is_ge(),
                }));
            }
            match k {
                K::Int => {
                    let (V::I(a), V::I(b)) = (lv, rv) else { return None };
                    V::I(match op {
                        Op::Add => a.checked_add(b)?,
                        Op::Sub => a.checked_sub(b)?,
                        Op::Mul => a.checked_mul(b)?,
                        Op::FloorDiv => {
                            if b == 0 {
                                return None;
                            }
                            let (q, r) = (a.checked_div(b)?, a.checked_rem(b)?);
                            if r != 0 && ((r < 0) != (b < 0)) {
                                q - 1
                            } else {
                                q
                            }
                        }
                        Op::Mod => {
                            if b == 0 {
                                return None;
                            }
                            let r = a.checked_rem(b)?;
                            if r != 0 && ((r < 0) != (b < 0)) {
                                r + b
                            } else {
                                r
                            }
                        }
                        Op::Pow => a.checked_pow(u32::try_from(b).ok()?)?,
                        _ => return None,
                    })
                }
                _ => {
                    let (a, b) = (f(lv), f(rv));
                    let v = match op {
                        Op::Add => a + b,
                        Op::Sub => a - b,
                        Op::Mul => a * b,
                        Op::Div => {
                            if b == 0.0 {
                                return None;
                            }
                            a / b
                        }
                        Op::FloorDiv => {
                            if b == 0.0 {
                                return None;
                            }
                            (a / b).floor()
                        }
                        Op::Mod => {
                            if b == 0.0 {
                                return None;
                            }
                            let r = a % b;
                            if r != 0.0 && ((r < 0.0) != (b < 0.0)) {
                                r + b
                            } else {
                                r
                            }
                        }
                        Op::Pow => a.powf(b),
                        _ => return None,
                    };
                    if !v.is_finite() {
                        return None;
                    }
                    V::F(v)
                }
            }
        }
    })
}

// ------------------------------------------------------------------------------------------------ enumeration

fn left_leaves() -> Vec<E> {
    vec![
        E::Int(9),
        E::Float(9.5),
        E::Var("a", K::Int),
        E::Var("x", K::Float),
        E::Paren(Box::new(E::Int(9))),
        E::Paren(Box::new(E::Float(9.5))),
    ]
}
fn right_leaves() -> Vec<E> {
    vec![
        E::Int(4),
        E::Float(1.5),
        E::Var("b", K::Int),
        E::Var("y", K::Float),
        E::Paren(Box::new(E::Int(4))),
        E::Paren(Box::new(E::Float(1.5))),
    ]
}
/// exponent forms (right operand of `**`): non-negative literal (incl. 0), negative literal, parenthesised
/// literal (positive and negative), int variable, float literal, float variable
fn exponent_leaves() -> Vec<E> {
    vec![
        E::Int(3),
        E::Int(0),
        E::Neg(Box::new(E::Int(2))),
        E::Paren(Box::new(E::Int(2))),
        E::Paren(Box::new(E::Neg(Box::new(E::Int(2))))),
        E::Var("b", K::Int),
        E::Float(1.5),
        E::Var("y", K::Float),
        E::Paren(Box::new(E::Float(1.5))),
    ]
}
fn nested_small() -> Vec<E> {
    let (a, b, x, y) = (E::Var("a", K::Int), E::Var("b", K::Int), E::Var("x", K::Float), E::Var("y", K::Float));
    vec![
        // int-kinded
        bin(a.clone(), Op::Mul, b.clone()),
        bin(a.clone(), Op::FloorDiv, b.clone()),
        // float-kinded: `/`, and one mixed-kind representative per operator family (infix / helper call)
        bin(a.clone(), Op::Div, b.clone()),
        bin(x.clone(), Op::Mul, b.clone()),
        bin(a.clone(), Op::Sub, y.clone()),
        bin(x.clone(), Op::Add, b.clone()),
        bin(a.clone(), Op::Mod, y.clone()),
        bin(a.clone(), Op::FloorDiv, y.clone()),
    ]
}
/// every arithmetic operator over every variable-kind pair, plus `**` with literal exponents
fn nested_full() -> Vec<E> {
    let mut v = Vec::new();
    for op in ARITH {
        for l in [E::Var("a", K::Int), E::Var("x", K::Float)] {
            for r in [E::Var("b", K::Int), E::Var("y", K::Float)] {
                v.push(bin(l.clone(), op, r.clone()));
            }
        }
    }
    for l in [E::Var("a", K::Int), E::Var("x", K::Float)] {
        v.push(bin(l.clone(), Op::Pow, E::Int(2)));
        v.push(bin(l.clone(), Op::Pow, E::Neg(Box::new(E::Int(2)))));
    }
    v
}
/// depth-2 representatives: a depth-1 representative combined once more with a variable
fn nested_deeper() -> Vec<E> {
    let mut v = Vec::new();
    for n in nested_small() {
        for op in ARITH {
            for leaf in [E::Var("b", K::Int), E::Var("y", K::Float)] {
                v.push(bin(n.clone(), op, leaf.clone()));
            }
        }
    }
    v
}

/// Operators over *references to module-level consts* (int const, float const, negative-valued const, negated const
/// reference) and literals. These are const-evaluable, so they also occupy the `const` binding position, where the
/// const evaluator - a separate consumer of the numeric policy - decides the kind; a const name is never "an int
/// literal" for the `**` rule. (Parenthesised operands are not const-evaluable and are covered with variables.)
fn enumerate_const_refs() -> Vec<E> {
    let c = |n: &'static str, k: K| E::Var(n, k);
    let neg = |e: E| E::Neg(Box::new(e));
    let lefts = vec![c("CI", K::Int), c("CF", K::Float), c("CN", K::Int), E::Int(9), E::Float(9.5), neg(c("CI", K::Int)), neg(c("CN", K::Int))];
    let rights = vec![
        c("CJ", K::Int),
        c("CG", K::Float),
        c("CN", K::Int),
        neg(c("CN", K::Int)),
        neg(c("CJ", K::Int)),
        neg(c("CG", K::Float)),
        E::Int(4),
        E::Int(0),
        neg(E::Int(2)),
        E::Float(1.5),
    ];
    let mut out = Vec::new();
    for op in ALL_OPS {
        for l in &lefts {
            // `-C ** e` would need a grouping parenthesis, which a const initializer may not contain
            if op == Op::Pow && matches!(l, E::Neg(_)) {
                continue;
            }
            for r in &rights {
                let has_const = |e: &E| matches!(e, E::Var(..)) || matches!(e, E::Neg(x) if matches!(**x, E::Var(..)));
                if !has_const(l) && !has_const(r) {
                    continue;
                }
                if matches!(r, E::Int(0)) && matches!(op, Op::Div | Op::FloorDiv | Op::Mod) {
                    continue;
                }
                out.push(bin(l.clone(), op, r.clone()));
            }
        }
    }
    out
}

/// All probes for a nesting depth. depth 0: leaves only; 1: + `nested_small`; 2: + nested_full + nested_deeper.
fn enumerate(depth: usize) -> Vec<E> {
    let mut lefts = left_leaves();
    let mut rights = right_leaves();
    let mut exps = exponent_leaves();
    let mut nested: Vec<E> = Vec::new();
    if depth >= 1 {
        nested.extend(nested_small());
    }
    if depth >= 2 {
        for n in nested_full().into_iter().chain(nested_deeper()) {
            if !nested.contains(&n) {
                nested.push(n);
            }
        }
    }
    lefts.extend(nested.iter().cloned());
    rights.extend(nested.iter().cloned());
    exps.extend(nested.iter().cloned());
    let mut out = Vec::new();
    for op in ALL_OPS {
        let rs = if op == Op::Pow { &exps } else { &rights };
        for l in &lefts {
            for r in rs {
                out.push(bin(l.clone(), op, r.clone()));
            }
        }
    }
    out
}

#[derive(Clone, Copy, PartialEq, Eq, Hash, Debug, PartialOrd, Ord)]
enum Pos {
    Let,
    Return,
    Arg,
    Compound,
    Field,
    Const,
}
const POSITIONS: [Pos; 6] = [Pos::Let, Pos::Return, Pos::Arg, Pos::Compound, Pos::Field, Pos::Const];
impl Pos {
    fn name(self) -> &'static str {
        match self {
            Pos::Let => "let",
            Pos::Return => "return",
            Pos::Arg => "argument",
            Pos::Compound => "compound-assign",
            Pos::Field => "model-field",
            Pos::Const => "const",
        }
    }
}

fn applicable(e: &E, pos: Pos) -> bool {
    match pos {
        // `x op= R` exists for + - * / // % and needs a variable on the left
        Pos::Compound => matches!(e, E::Bin(l, op, _) if matches!(**l, E::Var(n, _) if is_local(n)) && !op.is_cmp() && *op != Op::Pow),
        // const initializers: literals only, and parentheses are not const-evaluable
        Pos::Const => !e.has_var() && !e.has_paren(),
        _ => true,
    }
}

const PRELUDE: &str = "const CI: int = 3\nconst CJ: int = 2\nconst CN: int = -2\nconst CF: float = 2.5\nconst CG: float = 1.5\n\nmodel MI:\n    v: int\n\nmodel MF:\n    v: float\n\nmodel MB:\n    v: bool\n\n\
def want_int(i: int, v: int) -> None:\n    print(i)\n    print(v)\n\n\
def want_float(i: int, v: float) -> None:\n    print(i)\n    print(v)\n\n\
def want_bool(i: int, v: bool) -> None:\n    print(i)\n    print(v)\n\n";
const PARAMS: &str = "a: int, b: int, x: float, y: float";

fn model_of(k: K) -> &'static str {
    match k {
        K::Int => "MI",
        K::Float => "MF",
        K::Bool => "MB",
    }
}

/// Statements (inside `probe`) + extra top-level declarations binding `e` at `pos` under annotation `ann` and
/// handing the value to `want_<ann>(id, ..)`.
fn binding(e: &E, pos: Pos, ann: K, id: usize) -> (String, String) {
    let t = e.text();
    let a = ann.ann();
    match pos {
        Pos::Let => (format!("    t{id}: {a} = {t}\n    want_{a}({id}, t{id})\n"), String::new()),
        Pos::Return => (
            format!("    want_{a}({id}, r{id}(a, b, x, y))\n"),
            format!("def r{id}({PARAMS}) -> {a}:\n    return {t}\n\n"),
        ),
        Pos::Arg => (format!("    want_{a}({id}, {t})\n"), String::new()),
        Pos::Compound => {
            let E::Bin(l, op, r) = e else { unreachable!() };
            let rt = r.render(0, &mut true);
            (
                format!("    mut c{id}: {a} = {}\n    c{id} {}= {rt}\n    want_{a}({id}, c{id})\n", l.text(), op.sym()),
                String::new(),
            )
        }
        Pos::Field => (
            format!("    m{id} = {}(v={t})\n    want_{a}({id}, m{id}.v)\n", model_of(ann)),
            String::new(),
        ),
        Pos::Const => (format!("    want_{a}({id}, K{id})\n"), format!("const K{id}: {a} = {t}\n\n")),
    }
}

fn program(items: &[(String, String)]) -> String {
    let mut s = String::from(PRELUDE);
    for (_, top) in items {
        s.push_str(top);
    }
    s.push_str(&format!("def probe({PARAMS}) -> None:\n"));
    for (body, _) in items {
        s.push_str(body);
    }
    s.push_str(&format!("\ndef main() -> None:\n    probe({VA}, {VB}, {VX:?}, {VY:?})\n"));
    s
}

// ------------------------------------------------------------------------------------------------ front end

#[derive(Debug, Clone, PartialEq)]
enum Verdict {
    Accept,
    /// rejected with a type-mismatch diagnostic
    RejectMismatch(String),
    /// rejected for some other reason
    RejectOther(String),
    /// the generated program does not lex/parse: engine problem
    NoParse(String),
    Panic(String),
}

fn check_src(src: &str) -> Verdict {
    let r = util::catch(|| {
        let tokens = match lexer::lex(src) {
            Ok(t) => t,
            Err(e) => return Verdict::NoParse(e.first().map(|e| e.message.clone()).unwrap_or_default()),
        };
        let ast = match parser::parse(&tokens) {
            Ok(a) => a,
            Err(e) => return Verdict::NoParse(e.first().map(|e| e.message.clone()).unwrap_or_default()),
        };
        let mut tc = TypeChecker::new();
        match tc.check_program(&ast) {
            Ok(()) => Verdict::Accept,
            Err(errs) => {
                let msgs: Vec<String> = errs.iter().map(|e| e.message.clone()).collect();
                let all = msgs.join(" | ");
                if msgs.iter().any(|m| m.contains("ismatch") || m.contains("Cannot assign")) {
                    Verdict::RejectMismatch(all)
                } else {
                    Verdict::RejectOther(all)
                }
            }
        }
    });
    match r {
        Ok(v) => v,
        Err(p) => Verdict::Panic(p),
    }
}

/// In-process lowering + emission. Ok(rust) / Err(short error class, full text).
fn emit_src(src: &str) -> Result<String, (String, String)> {
    let r = util::catch(|| {
        let tokens = lexer::lex(src).map_err(|e| ("lex".to_string(), format!("{:?}", e.first().map(|e| &e.message))))?;
        let ast = parser::parse(&tokens).map_err(|e| ("parse".to_string(), format!("{:?}", e.first().map(|e| &e.message))))?;
        IrCodegen::new().try_generate(&ast).map_err(|e| {
            let full = e.to_string();
            (emit_class(&full), full)
        })
    });
    match r {
        Ok(v) => v,
        Err(p) => Err(("panic".into(), p)),
    }
}

fn emit_class(full: &str) -> String {
    if full.contains("casts cannot be followed by a method call") {
        "cast-then-method".into()
    } else if full.contains("syn parse error") {
        "syn-parse".into()
    } else if full.contains("typecheck failed") {
        "typecheck".into()
    } else if full.contains("unsupported") {
        "unsupported".into()
    } else {
        "other".into()
    }
}

// ------------------------------------------------------------------------------------------------ known findings

const KF_ARG: &str = "checker:argument-position-unchecked";
const KF_POW_CAST: &str = "emit:cast-then-method:pow-base-ends-in-cast";
const KF_POW_LIT: &str = "rustc:E0689:pow-int-literal-base";
const KF_LT_CAST: &str = "emit:cast-then-lt:left-operand-ends-in-cast";
const KF_CONST_HELPER: &str = "rustc:E0015:const-initializer-calls-runtime-helper";

/// Does the Rust text emitted for `e` end in an un-parenthesised `as f64` cast? The emitter writes int->float
/// promotion as `(operand) as f64` and splices operands of infix operators as raw tokens (grouping parentheses are
/// dropped), so the emitted text of `l op r` ends in a cast when `op` is emitted infix and `r` is promoted or itself
/// ends in a cast. `/ // %` are emitted as helper calls and `**` as a method call: they end in `)`.
fn ends_in_cast(e: &E, pil: bool) -> bool {
    match e {
        E::Paren(x) => ends_in_cast(x, pil),
        E::Neg(x) => ends_in_cast(x, pil),
        E::Bin(l, op, r) => {
            let infix = matches!(op, Op::Add | Op::Sub | Op::Mul) || op.is_cmp();
            infix && (right_promoted(l, *op, r, pil) || ends_in_cast(r, pil))
        }
        _ => false,
    }
}
fn left_promoted(l: &E, op: Op, r: &E, pil: bool) -> bool {
    let (lk, rk) = (kind_of(l, pil), kind_of(r, pil));
    lk == K::Int && if op.is_cmp() { rk == K::Float } else { kind_of(&bin(l.clone(), op, r.clone()), pil) == K::Float }
}
fn right_promoted(l: &E, op: Op, r: &E, pil: bool) -> bool {
    let (lk, rk) = (kind_of(l, pil), kind_of(r, pil));
    rk == K::Int && if op.is_cmp() { lk == K::Float } else { kind_of(&bin(l.clone(), op, r.clone()), pil) == K::Float }
}

/// Known defects that make an expression impossible to push through the emitter / rustc. Each predicate is the
/// exact construct of the recorded finding; everything else that fails is a violation.
fn blockers(e: &E, pil: bool, out: &mut Vec<&'static str>) {
    match e {
        E::Bin(l, op, r) => {
            blockers(l, pil, out);
            blockers(r, pil, out);
            let cast_left = left_promoted(l, *op, r, pil) || ends_in_cast(l, pil);
            match op {
                Op::Pow if cast_left => out.push(KF_POW_CAST),
                Op::Pow if kind_of(e, pil) == K::Int && matches!(strip_paren(l), E::Int(_)) => out.push(KF_POW_LIT),
                Op::Lt if cast_left => out.push(KF_LT_CAST),
                _ => {}
            }
        }
        E::Neg(x) | E::Paren(x) => blockers(x, pil, out),
        _ => {}
    }
}
fn e2e_blocker(e: &E, pil: bool) -> Option<&'static str> {
    let mut v = Vec::new();
    blockers(e, pil, &mut v);
    // emitter-level defects first (they hide the rustc-level one)
    v.iter().copied().find(|k| k.starts_with("emit:")).or(v.first().copied())
}
/// `/ // % **` lower to calls of runtime helpers (`py_div`, `py_floor_div_*`, `py_mod_*`, `powf`) that are not
/// `const fn`: a const initializer using them passes the checker and fails rustc (E0015).
fn const_blocker(e: &E) -> Option<&'static str> {
    match e {
        E::Bin(l, op, r) => {
            if matches!(op, Op::Div | Op::FloorDiv | Op::Mod) || (*op == Op::Pow && !matches!((&**l, &**r), (E::Int(_), E::Int(_)))) {
                Some(KF_CONST_HELPER)
            } else {
                const_blocker(l).or_else(|| const_blocker(r))
            }
        }
        E::Neg(x) | E::Paren(x) => const_blocker(x),
        _ => None,
    }
}
fn strip_paren(e: &E) -> &E {
    match e {
        E::Paren(x) => strip_paren(x),
        o => o,
    }
}

// ------------------------------------------------------------------------------------------------ failures

#[derive(Clone, Debug)]
struct Fail {
    key: String,
    what: String,
    replay: Value,
}

fn sig(e: &E, pos: Pos) -> String {
    match e {
        E::Bin(l, op, r) => format!("{}:{}-x-{}:{}", op.name(), l.form(), r.form(), pos.name()),
        _ => format!("leaf:{}", pos.name()),
    }
}

/// Leg 1 + 2 for one expression in one position. Returns failures and statistics tags.
fn judge_static(e: &E, pos: Pos, pil: bool, arg_unchecked_known: bool) -> (Vec<Fail>, Vec<&'static str>) {
    let mut fails = Vec::new();
    let mut tags = Vec::new();
    let t = kind_of(e, pil);
    let s = sig(e, pos);
    let mk = |ann: K| {
        let (b, top) = binding(e, pos, ann, 1);
        program(&[(b, top)])
    };
    let replay = |src: &str, expect: &str| json!({"leg": "checker", "source": src, "expect": expect, "expr": e.text(), "position": pos.name()});

    if pos == Pos::Compound {
        // x op= y is typed as x = (x op y); the result must be assignable back to x
        let E::Bin(l, _, _) = e else { unreachable!() };
        let lk = kind_of(l, pil);
        let src = mk(lk);
        let v = check_src(&src);
        let want_accept = t == lk;
        match (&v, want_accept) {
            (Verdict::Accept, true) | (Verdict::RejectMismatch(_), false) => {}
            (Verdict::NoParse(m), _) => fails.push(Fail { key: "engine:no-parse".into(), what: format!("{m}\n{src}"), replay: Value::Null }),
            (Verdict::Accept, false) => fails.push(Fail {
                key: format!("checker:accepts-wrong-kind:{s}"),
                what: format!("`{}` has kind {:?} but is assigned back to a {:?} variable and accepted", e.text(), t, lk),
                replay: replay(&src, "reject"),
            }),
            (other, true) => fails.push(Fail {
                key: format!("checker:rejects-right-kind:{s}"),
                what: format!("`{}` has kind {:?}, assigning back to a {:?} variable must be accepted: {:?}", e.text(), t, lk, other),
                replay: replay(&src, "accept"),
            }),
            (other, false) => fails.push(Fail {
                key: format!("checker:other-diagnostic:{s}"),
                what: format!("`{}`: expected a type-mismatch diagnostic, got {:?}", e.text(), other),
                replay: replay(&src, "reject"),
            }),
        }
        if want_accept {
            tags.push("accept");
        } else {
            tags.push("reject");
        }
        return (fails, tags);
    }

    // the documented kind is accepted
    let src = mk(t);
    match check_src(&src) {
        Verdict::Accept => tags.push("accept"),
        Verdict::NoParse(m) => fails.push(Fail { key: "engine:no-parse".into(), what: format!("{m}\n{src}"), replay: Value::Null }),
        other => fails.push(Fail {
            key: format!("checker:rejects-right-kind:{s}"),
            what: format!("`{}` has documented kind {:?}; binding it to `{}` must be accepted: {:?}", e.text(), t, t.ann(), other),
            replay: replay(&src, "accept"),
        }),
    }
    // every other kind is rejected (int expression under `float`: undocumented, counted only)
    for other in [K::Int, K::Float, K::Bool] {
        if other == t {
            continue;
        }
        if pos == Pos::Arg && arg_unchecked_known {
            tags.push("excluded-arg-wrong-kind");
            continue;
        }
        let src = mk(other);
        let v = check_src(&src);
        if t == K::Int && other == K::Float {
            tags.push(if v == Verdict::Accept { "int-under-float:accepted" } else { "int-under-float:rejected" });
            continue;
        }
        match v {
            Verdict::RejectMismatch(_) => tags.push("reject"),
            Verdict::NoParse(m) => fails.push(Fail { key: "engine:no-parse".into(), what: format!("{m}\n{src}"), replay: Value::Null }),
            Verdict::Accept => {
                let key = if pos == Pos::Arg { KF_ARG.to_string() } else { format!("checker:accepts-wrong-kind:{s}") };
                fails.push(Fail {
                    key,
                    what: format!("`{}` has documented kind {:?} but binding it to `{}` ({}) is accepted", e.text(), t, other.ann(), pos.name()),
                    replay: replay(&src, "reject"),
                })
            }
            o => fails.push(Fail {
                key: format!("checker:other-diagnostic:{s}"),
                what: format!("`{}` bound to `{}`: expected a type-mismatch diagnostic, got {:?}", e.text(), other.ann(), o),
                replay: replay(&src, "reject"),
            }),
        }
    }
    // phase agreement: the const evaluator (const position) and the ordinary checker (the same expression bound by an
    // annotated let in a function body) must give the same accept/reject verdict for every annotation
    if pos == Pos::Const {
        for ann in [K::Int, K::Float, K::Bool] {
            let (cb, ct) = binding(e, Pos::Const, ann, 1);
            let csrc = program(&[(cb, ct)]);
            let (lb, lt) = binding(e, Pos::Let, ann, 1);
            let (vc, vl) = (check_src(&csrc), check_src(&program(&[(lb, lt)])));
            if (vc == Verdict::Accept) != (vl == Verdict::Accept) {
                fails.push(Fail {
                    key: format!("phase:const-eval-vs-checker:{s}"),
                    what: format!(
                        "`{}` annotated `{}`: as a const initializer {:?}, as a let in a function body {:?} (documented kind {:?})",
                        e.text(),
                        ann.ann(),
                        vc,
                        vl,
                        t
                    ),
                    replay: replay(&csrc, if vl == Verdict::Accept { "accept" } else { "reject" }),
                });
            }
            tags.push("phase-agreement");
        }
    }
    (fails, tags)
}

/// Leg 2: the accepted program goes through lowering + emission.
fn judge_emit(e: &E, pos: Pos, pil: bool) -> (Option<Fail>, Option<&'static str>) {
    let t = kind_of(e, pil);
    let ann = if pos == Pos::Compound {
        let E::Bin(l, _, _) = e else { unreachable!() };
        let lk = kind_of(l, pil);
        if lk != t {
            return (None, None);
        }
        lk
    } else {
        t
    };
    let (b, top) = binding(e, pos, ann, 1);
    let src = program(&[(b, top)]);
    match emit_src(&src) {
        Ok(_) => (None, None),
        // the checker itself rejects the program: leg 1 reports that
        Err((class, _)) if class == "typecheck" => (None, None),
        Err((class, full)) => {
            let mut bl = Vec::new();
            blockers(e, pil, &mut bl);
            for k in bl {
                let expected_class = match k {
                    KF_POW_CAST => "cast-then-method",
                    KF_LT_CAST => "syn-parse",
                    _ => "",
                };
                if class == expected_class {
                    return (None, Some(k));
                }
            }
            (
                Some(Fail {
                    key: format!("emit:{class}:{}", sig(e, pos)),
                    what: format!("`{}` ({}) passes the type checker but code generation fails: {}", e.text(), pos.name(), util::truncate(&full, 400)),
                    replay: json!({"leg": "emit", "source": src, "expect": "emits", "expr": e.text(), "position": pos.name()}),
                }),
                None,
            )
        }
    }
}

// ------------------------------------------------------------------------------------------------ leg 3

#[derive(Clone, Debug)]
struct Probe {
    e: E,
    pos: Pos,
    ann: K,
    want: V,
}

fn fmt_v(v: V) -> String {
    match v {
        V::I(n) => n.to_string(),
        V::F(f) => format!("{f:?}"),
        V::B(b) => b.to_string(),
    }
}

fn value_matches(want: V, got: &str) -> bool {
    match want {
        V::I(n) => got.trim().parse::<i64>().ok() == Some(n),
        V::B(b) => {
            let g = got.trim();
            (g == "true" || g == "True") == b && matches!(g, "true" | "True" | "false" | "False")
        }
        V::F(f) => match got.trim().parse::<f64>() {
            Ok(g) => {
                let tol = 1e-9 * f.abs().max(g.abs()).max(1e-300);
                (g - f).abs() <= tol
            }
            Err(_) => false,
        },
    }
}

fn batch_source(probes: &[Probe], ids: &[usize]) -> String {
    let items: Vec<(String, String)> = ids.iter().map(|&i| binding(&probes[i].e, probes[i].pos, probes[i].ann, i)).collect();
    program(&items)
}

/// Expected stdout tokens of a batch.
fn batch_expected(probes: &[Probe], ids: &[usize]) -> Vec<String> {
    let mut v = Vec::new();
    for &i in ids {
        v.push(i.to_string());
        v.push(fmt_v(probes[i].want));
    }
    v
}

/// Map rustc diagnostics of a failed batch build to probe ids (via `--> src/main.rs:LINE` and the id embedded in the
/// generated line or the nearest preceding line that carries one).
fn offenders_from_rustc(out: &FarmOut, ids: &[usize]) -> BTreeMap<usize, String> {
    let mut res = BTreeMap::new();
    let Some(b) = &out.build else { return res };
    let text = format!("{}\n{}", b.stdout, b.stderr);
    let main_rs = out.generated.iter().find(|(p, _)| p == "src/main.rs").map(|(_, s)| s.as_str()).unwrap_or("");
    let lines: Vec<&str> = main_rs.lines().collect();
    let idset: BTreeSet<usize> = ids.iter().copied().collect();
    let find_id = |line: &str| -> Option<usize> {
        // identifiers carrying the probe id: t12, r12, c12, m12, K12, want_x(12,
        let bytes = line.as_bytes();
        let mut i = 0;
        while i < bytes.len() {
            if bytes[i].is_ascii_digit() {
                let st = i;
                while i < bytes.len() && bytes[i].is_ascii_digit() {
                    i += 1;
                }
                let prev = if st > 0 { bytes[st - 1] } else { b' ' };
                let prev2_ok = st < 2 || !(bytes[st - 2].is_ascii_alphanumeric() || bytes[st - 2] == b'_');
                let tagged = (matches!(prev, b't' | b'r' | b'c' | b'm' | b'K') && prev2_ok) || prev == b'(';
                if tagged {
                    if let Ok(n) = line[st..i].parse::<usize>() {
                        if idset.contains(&n) {
                            return Some(n);
                        }
                    }
                }
            } else {
                i += 1;
            }
        }
        None
    };
    let mut code = String::new();
    for l in text.lines() {
        let l = l.trim_start();
        if let Some(rest) = l.strip_prefix("error") {
            code = rest.trim_start_matches('[').split(']').next().unwrap_or("").to_string();
            if !code.starts_with('E') {
                code = "error".into();
            }
        }
        if let Some(loc) = l.strip_prefix("--> src/main.rs:") {
            if let Some(n) = loc.split(':').next().and_then(|x| x.parse::<usize>().ok()) {
                // search this line, then backwards up to 3 lines (return functions span several lines)
                for back in 0..4 {
                    if n < 1 + back {
                        break;
                    }
                    if let Some(line) = lines.get(n - 1 - back) {
                        if let Some(id) = find_id(line) {
                            res.entry(id).or_insert_with(|| code.clone());
                            break;
                        }
                    }
                }
            }
        }
    }
    res
}

struct E2e<'a> {
    farm: &'a Farm,
    probes: &'a [Probe],
    builds: u64,
}

impl<'a> E2e<'a> {
    fn run(&mut self, groups: &[Vec<usize>]) -> Vec<FarmOut> {
        let projects: Vec<Project> = groups.iter().enumerate().map(|(n, ids)| Project::single(&format!("c07b{}_{}", self.builds, n), &batch_source(self.probes, ids))).collect();
        self.builds += projects.len() as u64;
        self.farm.run_many(&projects, Mode::BuildRun)
    }

    /// Judge one group; on a build failure isolate offending probes (rustc line mapping, else bisection).
    fn judge_group(&mut self, ids: &[usize], out: &FarmOut, fails: &mut Vec<Fail>, infra: &mut Vec<String>, budget: &mut i64) {
        if let Some(e) = &out.infra_error {
            infra.push(e.clone());
            return;
        }
        let Some(b) = &out.build else {
            infra.push("no build output".into());
            return;
        };
        if !b.ok() {
            if ids.len() == 1 {
                let p = &self.probes[ids[0]];
                let text = format!("{}\n{}", b.stdout, b.stderr);
                let code = first_error_code(&text);
                fails.push(Fail {
                    key: format!("e2e:build:{code}:{}", sig(&p.e, p.pos)),
                    what: format!(
                        "`{}` bound as {} in position {} passes `incan --check` semantics but `incan build` fails:\n{}",
                        p.e.text(),
                        p.ann.ann(),
                        p.pos.name(),
                        util::truncate(&strip_ansi(&text), 1500)
                    ),
                    replay: json!({"leg": "e2e", "source": batch_source(self.probes, ids), "expect_stdout": batch_expected(self.probes, ids)}),
                });
                return;
            }
            if *budget <= 0 {
                infra.push("bisection budget exhausted".into());
                return;
            }
            let off = offenders_from_rustc(out, ids);
            let (a, bgroup): (Vec<usize>, Vec<usize>) = if !off.is_empty() && off.len() < ids.len() {
                // offenders one by one, and the rest together
                let rest: Vec<usize> = ids.iter().copied().filter(|i| !off.contains_key(i)).collect();
                let singles: Vec<Vec<usize>> = off.keys().take(12).map(|&i| vec![i]).collect();
                let mut groups = singles;
                if !rest.is_empty() {
                    groups.push(rest);
                }
                *budget -= groups.len() as i64;
                let outs = self.run(&groups);
                for (g, o) in groups.iter().zip(outs.iter()) {
                    self.judge_group(g, o, fails, infra, budget);
                }
                return;
            } else {
                let mid = ids.len() / 2;
                (ids[..mid].to_vec(), ids[mid..].to_vec())
            };
            *budget -= 2;
            let groups = vec![a, bgroup];
            let outs = self.run(&groups);
            for (g, o) in groups.iter().zip(outs.iter()) {
                self.judge_group(g, o, fails, infra, budget);
            }
            return;
        }
        let Some(r) = &out.run else {
            infra.push("no run output".into());
            return;
        };
        let toks: Vec<&str> = r.stdout.lines().collect();
        let expected = batch_expected(self.probes, ids);
        if !r.ok() || toks.len() != expected.len() {
            // attribute to the first probe whose pair is missing
            let n = toks.len() / 2;
            let culprit = ids.get(n).copied().unwrap_or(ids[0]);
            let p = &self.probes[culprit];
            fails.push(Fail {
                key: format!("e2e:run-failed:{}", sig(&p.e, p.pos)),
                what: format!(
                    "program ended with status {:?} after {} of {} probes; next probe `{}`\nstderr: {}",
                    r.status,
                    n,
                    ids.len(),
                    p.e.text(),
                    util::truncate(&r.stderr, 600)
                ),
                replay: json!({"leg": "e2e", "source": batch_source(self.probes, &[culprit]), "expect_stdout": batch_expected(self.probes, &[culprit])}),
            });
            return;
        }
        for (n, &i) in ids.iter().enumerate() {
            let p = &self.probes[i];
            if toks[2 * n].trim() != i.to_string() || !value_matches(p.want, toks[2 * n + 1]) {
                fails.push(Fail {
                    key: format!("e2e:value:{}", sig(&p.e, p.pos)),
                    what: format!(
                        "`{}` ({} in position {}) printed `{}`/`{}`, reference value {} (a={VA}, b={VB}, x={VX}, y={VY})",
                        p.e.text(),
                        p.ann.ann(),
                        p.pos.name(),
                        toks[2 * n],
                        toks[2 * n + 1],
                        fmt_v(p.want)
                    ),
                    replay: json!({"leg": "e2e", "source": batch_source(self.probes, &[i]), "expect_stdout": batch_expected(self.probes, &[i])}),
                });
            }
        }
    }
}

fn first_error_code(text: &str) -> String {
    for l in text.lines() {
        let l = strip_ansi(l);
        let l = l.trim_start();
        if let Some(rest) = l.strip_prefix("error[") {
            return rest.split(']').next().unwrap_or("rustc").to_string();
        }
        if l.contains("Code generation error") {
            return format!("codegen-{}", emit_class(l));
        }
    }
    "unknown".into()
}

fn strip_ansi(s: &str) -> String {
    let mut out = String::new();
    let mut it = s.chars();
    while let Some(c) = it.next() {
        if c == '\x1b' {
            for d in it.by_ref() {
                if d.is_ascii_alphabetic() {
                    break;
                }
            }
        } else {
            out.push(c);
        }
    }
    out
}

// ------------------------------------------------------------------------------------------------ replay

/// Judge a replay document; returns (failed, description).
fn judge_replay(doc: &Value, farm: &mut Option<Farm>) -> Result<(bool, String), String> {
    let src = doc["source"].as_str().ok_or("replay file has no `source`")?;
    match doc["leg"].as_str().unwrap_or("checker") {
        "checker" => {
            let v = check_src(src);
            let want = doc["expect"].as_str().unwrap_or("accept");
            let failed = match (&v, want) {
                (Verdict::Accept, "accept") => false,
                (Verdict::RejectMismatch(_), "reject") => false,
                (Verdict::NoParse(m), _) => return Err(format!("replay source does not parse: {m}")),
                _ => true,
            };
            Ok((failed, format!("expected {want}, checker verdict {v:?}")))
        }
        "emit" => match emit_src(src) {
            Ok(_) => Ok((false, "emits".into())),
            Err((c, f)) => Ok((true, format!("code generation fails ({c}): {}", util::truncate(&f, 300)))),
        },
        _ => {
            let f = farm.get_or_insert_with(|| Farm::new("c07"));
            let out = f.run_one(&Project::single("c07replay", src), Mode::CheckBuildRun);
            judge_e2e_out(doc, out)
        }
    }
}

fn judge_e2e_out(doc: &Value, out: FarmOut) -> Result<(bool, String), String> {
    {
        {
            if let Some(e) = out.infra_error {
                return Err(e);
            }
            if let Some(c) = &out.check {
                if !c.ok() {
                    return Ok((false, format!("`incan --check` rejects the program (so nothing accepted changes kind): {}", util::truncate(&strip_ansi(&c.stdout), 300))));
                }
            }
            let Some(b) = out.build else { return Err("no build output".into()) };
            if !b.ok() {
                return Ok((true, format!("check passes, build fails: {}", util::truncate(&strip_ansi(&format!("{}{}", b.stdout, b.stderr)), 800))));
            }
            let Some(r) = out.run else { return Err("no run output".into()) };
            let toks: Vec<&str> = r.stdout.lines().collect();
            let exp: Vec<String> = doc["expect_stdout"].as_array().map(|a| a.iter().filter_map(|v| v.as_str().map(|s| s.to_string())).collect()).unwrap_or_default();
            if !r.ok() || toks.len() != exp.len() {
                return Ok((true, format!("status {:?}, stdout {:?}, expected {:?}", r.status, toks, exp)));
            }
            for (n, (g, w)) in toks.iter().zip(exp.iter()).enumerate() {
                let ok = if n % 2 == 0 {
                    g.trim() == w
                } else if let Ok(i) = w.parse::<i64>() {
                    value_matches(V::I(i), g)
                } else if let Ok(b) = w.parse::<bool>() {
                    value_matches(V::B(b), g)
                } else if let Ok(f) = w.parse::<f64>() {
                    value_matches(V::F(f), g)
                } else {
                    g.trim() == w
                };
                if !ok {
                    return Ok((true, format!("token {n}: printed `{g}`, expected `{w}`")));
                }
            }
            Ok((false, "builds, runs, prints the reference values".into()))
        }
    }
}

// ------------------------------------------------------------------------------------------------ main

fn report(out: &mut Outcome, ev: &mut Evidence, f: &Fail) {
    if out.seen(&f.key) {
        ev.violations += 1;
        return;
    }
    let mut doc = f.replay.clone();
    if let Some(o) = doc.as_object_mut() {
        o.insert("signature".into(), json!(f.key));
        o.insert("what".into(), json!(f.what));
    }
    let body = serde_json::to_string_pretty(&doc).unwrap();
    out.violation(ev, &f.key, "json", &body, &f.what);
}

fn main() {
    util::install_quiet_panic_hook();
    if let Err(p) = util::catch(real_main) {
        println!("INCONCLUSIVE: property=C07 the check itself panicked: {p}");
        std::process::exit(2);
    }
}

fn real_main() {
    let args = Args::parse("C07");
    let mut out = Outcome::new("C07");
    let mut ev = Evidence::new(
        &args,
        "exhaustive enumeration: operators {+ - * / // % ** == != < <= > >=} x left operand form x right operand form \
         (for ** : exponent form), operand forms = {int literal, float literal, int variable, float variable, parenthesised \
         int/float literal, nested arithmetic sub-expressions}, exponent forms add {0, negative literal, parenthesised \
         negative literal}; each expression in the binding positions {annotated let, return, argument, compound \
         assignment, model field, const}. One case = one (expression, position). Non-trivial = operand kinds differ, or the \
         operator is / or **, or an operand is nested; distinct = hash of (expression text, position).",
    );
    ev.assume("int-kinded expression bound to a `float` annotation: numeric_semantics.md does not say whether this widens; nothing is demanded, the checker's behaviour is counted");
    ev.assume("whether a parenthesised literal exponent `(2)` counts as 'int literal' is not documented; the checker's choice is calibrated with one probe and every phase must agree with it");
    ev.assume("leg 3 (rustc/run time) only uses expressions that need no grouping parentheses (parentheses are lost in emitted Rust: C01 finding) and operands passed as typed function parameters");

    let mut farm: Option<Farm> = None;

    // ---- replay
    if let Some(path) = &args.replay {
        let text = std::fs::read_to_string(path).unwrap_or_default();
        let doc: Value = serde_json::from_str(&text).unwrap_or(Value::Null);
        ev.case(Some(util::hash_str(&text)));
        ev.sample(json!({"replay": path.display().to_string()}));
        match judge_replay(&doc, &mut farm) {
            Ok((true, what)) => {
                let key = doc["signature"].as_str().unwrap_or("replay").to_string();
                if out.is_known(&key) {
                    out.known_replayed(&key, true);
                } else {
                    out.violation(&mut ev, &key, "json", &text, &what);
                }
            }
            Ok((false, what)) => println!("replay holds: {what}"),
            Err(e) => out.inconclusive(&e),
        }
        std::process::exit(out.finish(&ev));
    }

    // ---- known findings: replay canonical inputs
    let known: Vec<_> = out.known.open.clone();
    let mut deferred: Vec<(String, Value)> = Vec::new();
    for k in &known {
        let text = std::fs::read_to_string(&k.replay).unwrap_or_default();
        let doc: Value = serde_json::from_str(&text).unwrap_or(Value::Null);
        if doc["leg"].as_str() == Some("e2e") {
            // built together with the leg-3 batches (every cargo invocation is expensive on a shared machine)
            deferred.push((k.key.clone(), doc));
            continue;
        }
        match judge_replay(&doc, &mut farm) {
            Ok((failed, _)) => out.known_replayed(&k.key, failed),
            Err(e) => out.inconclusive(&format!("known finding {} cannot be replayed: {e}", k.key)),
        }
    }
    let arg_known = out.is_known(KF_ARG);

    // ---- calibration: does a parenthesised literal exponent count as a literal for the checker?
    let cal = bin(E::Var("a", K::Int), Op::Pow, E::Paren(Box::new(E::Int(2))));
    let (b, top) = binding(&cal, Pos::Let, K::Int, 1);
    let pil = check_src(&program(&[(b, top)])) == Verdict::Accept;
    ev.set("paren_literal_exponent_counts_as_literal", json!(pil));

    // ---- oracle self-check: the transcription reproduces every example of numeric_semantics.md
    {
        let i = |n: i64| E::Int(n);
        let fl = |f: f64| E::Float(f);
        let neg = |e: E| E::Neg(Box::new(e));
        let ex: Vec<(E, V)> = vec![
            (bin(i(1), Op::Div, i(2)), V::F(0.5)),
            (bin(i(4), Op::Div, i(2)), V::F(2.0)),
            (bin(fl(7.0), Op::Div, i(2)), V::F(3.5)),
            (bin(i(7), Op::FloorDiv, i(3)), V::I(2)),
            (bin(neg(i(7)), Op::FloorDiv, i(3)), V::I(-3)),
            (bin(i(7), Op::FloorDiv, neg(i(3))), V::I(-3)),
            (bin(fl(7.0), Op::FloorDiv, i(3)), V::F(2.0)),
            (bin(neg(fl(7.0)), Op::FloorDiv, i(3)), V::F(-3.0)),
            (bin(i(7), Op::FloorDiv, fl(3.0)), V::F(2.0)),
            (bin(neg(i(7)), Op::Mod, i(3)), V::I(2)),
            (bin(i(7), Op::Mod, neg(i(3))), V::I(-2)),
            (bin(neg(fl(7.0)), Op::Mod, fl(3.0)), V::F(2.0)),
            (bin(fl(7.0), Op::Mod, neg(fl(3.0))), V::F(-2.0)),
            (bin(i(2), Op::Pow, i(3)), V::I(8)),
            (bin(i(2), Op::Pow, i(0)), V::I(1)),
            (bin(i(2), Op::Pow, neg(i(1))), V::F(0.5)),
            (bin(i(2), Op::Pow, E::Var("b", K::Int)), V::F(32.0)),
            (bin(fl(2.0), Op::Pow, i(3)), V::F(8.0)),
            (bin(i(2), Op::Pow, fl(3.0)), V::F(8.0)),
            (bin(i(1), Op::Eq, fl(1.0)), V::B(true)),
            (bin(i(1), Op::Lt, fl(1.5)), V::B(true)),
            (bin(i(2), Op::Ge, fl(2.0)), V::B(true)),
        ];
        for (e, want) in ex {
            if eval(&e, pil) != Some(want) {
                out.inconclusive(&format!("oracle self-check: `{}` evaluates to {:?}, the docs say {:?}", e.text(), eval(&e, pil), want));
                std::process::exit(out.finish(&ev));
            }
        }
    }

    // ---- enumeration
    let depth = args.tier.pick(1usize, 2usize);
    let mut exprs = enumerate(depth);
    let n_plain = exprs.len();
    exprs.extend(enumerate_const_refs());
    ev.set("enumerated_const_reference_expressions", json!(exprs.len() - n_plain));
    ev.set("enumerated_depth", json!(depth));
    ev.set("enumerated_expressions", json!(exprs.len()));
    let dump = std::env::var("C07_DUMP").is_ok();

    // ---- legs 1 and 2, exhaustive and in-process
    let t0 = std::time::Instant::now();
    let work: Vec<(usize, Pos)> = (0..exprs.len()).flat_map(|i| POSITIONS.iter().map(move |&p| (i, p))).filter(|&(i, p)| applicable(&exprs[i], p)).collect();
    type StaticOut = (Vec<Fail>, Vec<&'static str>, Option<&'static str>);
    let results: Vec<StaticOut> = work
        .par_iter()
        .map(|&(i, p)| {
            let e = &exprs[i];
            let (mut fails, tags) = judge_static(e, p, pil, arg_known);
            let (ef, excl) = judge_emit(e, p, pil);
            fails.extend(ef);
            (fails, tags, excl)
        })
        .collect();
    let mut dumpmap: BTreeMap<String, (u64, String)> = BTreeMap::new();
    let mut emit_blocked: BTreeSet<(usize, Pos)> = BTreeSet::new();
    let mut emit_known: BTreeMap<(usize, Pos), &'static str> = BTreeMap::new();
    for (&(i, p), (fails, tags, excl)) in work.iter().zip(results.iter()) {
        let e = &exprs[i];
        let E::Bin(l, op, r) = e else { unreachable!() };
        let nontrivial = kind_of(l, pil) != kind_of(r, pil) || matches!(op, Op::Div | Op::Pow) || e.depth() > 1;
        ev.case(if nontrivial { Some(util::hash_str(&format!("{}@{}", e.text(), p.name()))) } else { None });
        ev.class(&format!("position:{}", p.name()));
        ev.class(&format!("operator:{}", op.sym()));
        ev.class(&format!("expected-kind:{:?}", kind_of(e, pil)));
        for t in tags {
            if let Some(k) = t.strip_prefix("excluded-") {
                let _ = k;
                ev.exclude(KF_ARG);
            } else {
                ev.add(&format!("checker_{}", t.replace([':', '-'], "_")), 1);
            }
        }
        if let Some(k) = excl {
            ev.exclude(k);
            emit_known.insert((i, p), *k);
        } else if e2e_blocker(e, pil).is_some_and(|k| k.starts_with("emit:")) && !fails.iter().any(|f| f.key.starts_with("emit:")) {
            // the predicate of a known emitter finding matched but the emitter was fine: the predicate is too wide
            ev.add("known_predicate_overreach", 1);
        }
        for f in fails {
            if f.key.starts_with("engine:") {
                out.inconclusive(&format!("generated program does not parse: {}", util::truncate(&f.what, 300)));
                std::process::exit(out.finish(&ev));
            }
            if f.key.starts_with("emit:") {
                emit_blocked.insert((i, p));
            }
            if dump {
                let en = dumpmap.entry(f.key.clone()).or_insert((0, f.what.clone()));
                en.0 += 1;
            }
            report(&mut out, &mut ev, f);
        }
    }
    for i in [3usize, 77, 205, 333, 471, 650, 900, 1200] {
        if let Some(e) = exprs.get(i) {
            ev.sample(json!({"expression": e.text(), "documented_kind": format!("{:?}", kind_of(e, pil)), "reference_value": eval(e, pil).map(fmt_v), "natural_grouping": e.is_natural()}));
        }
    }

    ev.set("legs12_wall_s", json!(t0.elapsed().as_secs_f64()));
    // ---- leg 3: rustc + run time
    let mut probes: Vec<Probe> = Vec::new();
    for (n, e) in exprs.iter().enumerate() {
        let t = kind_of(e, pil);
        // every expression as an annotated let; the other positions for the shallower expressions
        // (quick: leaf operands without parentheses; thorough: at most one nested level)
        let shallow = if args.tier == vcore::Tier::Quick { e.depth() == 1 && !e.has_paren() } else { e.depth() <= 2 };
        let positions: Vec<Pos> = POSITIONS.iter().copied().filter(|&p| p == Pos::Let || shallow).collect();
        for p in positions {
            if !applicable(e, p) {
                continue;
            }
            let ann = if p == Pos::Compound {
                let E::Bin(l, _, _) = e else { unreachable!() };
                if kind_of(l, pil) != t {
                    continue;
                }
                t
            } else {
                t
            };
            if !e.is_natural() {
                ev.exclude("C01/paren-operand-of-infix(leg3-only)");
                continue;
            }
            if let Some(k) = emit_known.get(&(n, p)) {
                ev.exclude(&format!("{k}(leg3)"));
                continue;
            }
            let rustc_blocker = e2e_blocker(e, pil).filter(|k| k.starts_with("rustc:")).or_else(|| if p == Pos::Const { const_blocker(e) } else { None });
            if let Some(k) = rustc_blocker {
                ev.exclude(&format!("{k}(leg3)"));
                continue;
            }
            if emit_blocked.contains(&(n, p)) {
                continue; // already reported by leg 2
            }
            let Some(want) = eval(e, pil) else {
                ev.discard("leg3: reference value outside the domain (overflow / non-finite)");
                continue;
            };
            probes.push(Probe { e: e.clone(), pos: p, ann, want });
        }
    }
    ev.set("leg3_probes", json!(probes.len()));
    {
        let f = farm.get_or_insert_with(|| Farm::new("c07"));
        // few large programs: the fixed cost of a cargo invocation dominates
        let nbatch = (f.workers.max(1) - deferred.len().min(f.workers.max(1) - 1)).max(1);
        let per = probes.len().div_ceil(nbatch).clamp(100, args.tier.pick(800, 400));
        let all: Vec<usize> = (0..probes.len()).collect();
        let groups: Vec<Vec<usize>> = all.chunks(per).map(|c| c.to_vec()).collect();
        let mut e2e = E2e { farm: f, probes: &probes, builds: 0 };
        let kprojects: Vec<Project> = deferred.iter().enumerate().map(|(n, (_, d))| Project::single(&format!("c07known{n}"), d["source"].as_str().unwrap_or(""))).collect();
        let (kouts, outs) = rayon::join(|| f.run_many(&kprojects, Mode::CheckBuildRun), || E2e { farm: f, probes: &probes, builds: 0 }.run(&groups));
        e2e.builds += groups.len() as u64;
        for ((key, doc), o) in deferred.iter().zip(kouts.into_iter()) {
            match judge_e2e_out(doc, o) {
                Ok((failed, _)) => out.known_replayed(key, failed),
                Err(e) => out.inconclusive(&format!("known finding {key} cannot be replayed: {e}")),
            }
        }
        let mut fails = Vec::new();
        let mut infra = Vec::new();
        let mut budget: i64 = args.tier.pick(60, 600);
        for (g, o) in groups.iter().zip(outs.iter()) {
            e2e.judge_group(g, o, &mut fails, &mut infra, &mut budget);
        }
        ev.set("leg3_programs_built", json!(e2e.builds));
        ev.set("leg3_batches", json!(groups.len()));
        if let Some(g) = groups.first() {
            ev.sample(json!({"leg3_program_head": util::truncate(&batch_source(&probes, &g[..g.len().min(6)]), 1500)}));
        }
        for m in infra {
            out.inconclusive(&format!("leg 3: {m}"));
        }
        for f in &fails {
            if dump {
                let en = dumpmap.entry(f.key.clone()).or_insert((0, f.what.clone()));
                en.0 += 1;
            }
            report(&mut out, &mut ev, f);
        }
    }
    if dump {
        for (k, (n, w)) in &dumpmap {
            eprintln!("DUMP {n:6} {k}\n        {}", util::truncate(&w.replace('\n', " "), 260));
        }
    }
    ev.exhaustive = Some(true);
    ev.set(
        "exhaustive_scope",
        json!(format!(
            "legs 1-2: all {} expressions of nesting depth <= {} (operand forms listed in `rule`) in every applicable position; leg 3: the subset with natural grouping and no known emitter defect ({} probes)",
            exprs.len(),
            depth,
            probes.len()
        )),
    );
    std::process::exit(out.finish(&ev));
}
