//! C14 — imports resolve the same everywhere and respect visibility.
//!
//! Generated project trees (directories to depth 3, `.incn`/`.incan` module files, `mod.incn`/`mod.incan`
//! directory modules, `src/` or `Cargo.toml` root marker, entry at a generated depth) whose files import each
//! other with every spelling. Oracle: a reference resolver transcribed from the docs
//! (`language/reference/imports_and_modules.md`: path summary table, parent/crate rules; explanation page:
//! `mod.incn` for directories; tutorial 05: only `pub` items are importable).
//!
//! Populations
//!   R  in-process resolution: `cli::commands::collect_modules` closure, `frontend::module::resolve_import_path`
//!      per import, and the real language server (in-process `LspService` + `Server` over an in-memory duplex,
//!      `didOpen`) whose loaded dependency set is read off its `publishDiagnostics` notifications
//!   P  real CLI resolution: the import target carries a syntax error with a unique marker; the file was loaded
//!      iff `incan --check` reports that marker
//!   V  visibility: (item kind x import spelling x pub/private) exhaustively, each in a generated layout
//!      context, judged by the real `incan --check` and by the language server's diagnostics
//!   F  cycles (self, 2, 3; through the entry or not) and missing modules/items: diagnostic demanded, crash and
//!      hang detected
//!
//! A failure is keyed `<leg>:<class>:<features>` where the features are the non-default properties of the blamed
//! import (statement kind, prefix, importer, target layout, path depth, invocation style ...). Open known
//! findings (known-findings.txt) are feature sets: a judgement whose feature set contains a known one is not
//! made (counted with `ev.exclude`), everything else keeps being judged.

use incan::cli::commands::collect_modules;
use incan::frontend::ast::{Declaration, ImportDecl, ImportKind};
use incan::frontend::module::resolve_import_path;
use incan::frontend::{lexer, parser};
use incan::lsp::IncanLanguageServer;
use proptest::prelude::*;
use proptest::strategy::ValueTree;
use serde_json::{json, Value};
use std::collections::{BTreeMap, BTreeSet};
use std::path::{Path, PathBuf};
use std::process::Command;
use std::time::Duration;
use tower_lsp::lsp_types::Url;
use tower_lsp::{LspService, Server};
use vcore::farm as vf;
use vcore::{util, Args, Evidence, Outcome};

const PROP: &str = "C14";
const NAMES: [&str; 5] = ["ma", "mb", "mc", "pa", "pb"];

// =====================================================================================================
// Trees
// =====================================================================================================

#[derive(Clone, Debug, PartialEq, Eq)]
struct Tree {
    /// (path relative to the tree top, content)
    files: Vec<(String, String)>,
    /// relative path of the entry file
    entry: String,
}

impl Tree {
    fn has(&self, rel: &str) -> bool {
        self.files.iter().any(|(p, _)| p == rel)
    }
    fn get(&self, rel: &str) -> Option<&str> {
        self.files.iter().find(|(p, _)| p == rel).map(|(_, c)| c.as_str())
    }
    fn dir_exists(&self, dir: &str) -> bool {
        let pre = format!("{dir}/");
        self.files.iter().any(|(p, _)| p.starts_with(&pre))
    }
    fn to_json(&self) -> Value {
        let files: Vec<Value> = self.files.iter().map(|(p, c)| json!([p, c])).collect();
        json!({"files": files, "entry": self.entry})
    }
    fn from_json(v: &Value) -> Option<Tree> {
        let mut files = Vec::new();
        for f in v.get("files")?.as_array()? {
            let a = f.as_array()?;
            files.push((a.first()?.as_str()?.to_string(), a.get(1)?.as_str()?.to_string()));
        }
        Some(Tree { files, entry: v.get("entry")?.as_str()?.to_string() })
    }
    fn hash(&self) -> u64 {
        let mut s = String::new();
        for (p, c) in &self.files {
            s.push_str(p);
            s.push('\0');
            s.push_str(c);
            s.push('\0');
        }
        s.push_str(&self.entry);
        util::hash_str(&s)
    }
    fn materialise(&self, top: &Path) {
        for (rel, content) in &self.files {
            let p = top.join(rel);
            if let Some(parent) = p.parent() {
                let _ = std::fs::create_dir_all(parent);
            }
            let _ = std::fs::write(p, content);
        }
    }
}

fn parent_dir(rel: &str) -> String {
    match rel.rfind('/') {
        Some(i) => rel[..i].to_string(),
        None => String::new(),
    }
}
fn join(dir: &str, name: &str) -> String {
    if dir.is_empty() {
        name.to_string()
    } else {
        format!("{dir}/{name}")
    }
}

// =====================================================================================================
// Mini reader of the generated subset (independent of the compiler's parser)
// =====================================================================================================

#[derive(Clone, Copy, Debug, PartialEq, Eq)]
enum Stmt {
    From,
    Import,
}

#[derive(Clone, Debug)]
struct Imp {
    line: usize,
    text: String,
    stmt: Stmt,
    parents: usize,
    absolute: bool,
    /// all path segments as written (for `import`, the last one is the item)
    segs: Vec<String>,
    /// (name, alias) — for `import a::b::Item as X`: [(Item, Some(X))]
    items: Vec<(String, Option<String>)>,
    /// spelling used for the parent prefix: "", "..", "...", "super"
    parent_spelling: &'static str,
}

impl Imp {
    /// module path segments (docs: Rust-style `import module::item`, the last segment is the item)
    fn module_segs(&self) -> &[String] {
        match self.stmt {
            Stmt::From => &self.segs,
            Stmt::Import => {
                if self.segs.len() > 1 {
                    &self.segs[..self.segs.len() - 1]
                } else {
                    &self.segs
                }
            }
        }
    }
}

fn is_ident(s: &str) -> bool {
    !s.is_empty() && s.chars().all(|c| c.is_ascii_alphanumeric() || c == '_') && !s.chars().next().unwrap().is_ascii_digit()
}

/// Read a module path as documented: leading `..` = parent, `...` = grandparent; `super::` per level; `crate`.
fn read_path(mut p: &str) -> Option<(usize, bool, Vec<String>, &'static str)> {
    let mut parents = 0usize;
    let mut absolute = false;
    let mut spelling = "";
    let dots = p.chars().take_while(|c| *c == '.').count();
    if dots >= 2 {
        parents = dots - 1;
        spelling = if dots == 2 { ".." } else { "..." };
        p = &p[dots..];
    } else if dots == 1 {
        return None;
    }
    if let Some(rest) = p.strip_prefix("crate::").or_else(|| p.strip_prefix("crate.")) {
        if parents > 0 {
            return None;
        }
        absolute = true;
        p = rest;
    }
    loop {
        if let Some(rest) = p.strip_prefix("super::").or_else(|| p.strip_prefix("super.")) {
            parents += 1;
            spelling = "super";
            p = rest;
        } else {
            break;
        }
    }
    let norm = p.replace("::", ".");
    let segs: Vec<String> = norm.split('.').map(|s| s.to_string()).collect();
    if segs.iter().any(|s| !is_ident(s)) {
        return None;
    }
    Some((parents, absolute, segs, spelling))
}

/// Imports of one file. Err = a line that looks like an import but is outside the subset this check understands.
fn read_imports(src: &str) -> Result<Vec<Imp>, String> {
    let mut out = Vec::new();
    for (i, line) in src.lines().enumerate() {
        let l = line.trim_end();
        if let Some(rest) = l.strip_prefix("from ") {
            let Some((path, items)) = rest.split_once(" import ") else { return Err(format!("line {}: {l}", i + 1)) };
            let (parents, absolute, segs, sp) = read_path(path.trim()).ok_or_else(|| format!("line {}: {l}", i + 1))?;
            let mut its = Vec::new();
            for it in items.split(',') {
                let it = it.trim();
                let (n, a) = match it.split_once(" as ") {
                    Some((n, a)) => (n.trim(), Some(a.trim().to_string())),
                    None => (it, None),
                };
                if !is_ident(n) {
                    return Err(format!("line {}: {l}", i + 1));
                }
                its.push((n.to_string(), a));
            }
            out.push(Imp { line: i + 1, text: l.to_string(), stmt: Stmt::From, parents, absolute, segs, items: its, parent_spelling: sp });
        } else if let Some(rest) = l.strip_prefix("import ") {
            let (path, alias) = match rest.split_once(" as ") {
                Some((p, a)) => (p.trim(), Some(a.trim().to_string())),
                None => (rest.trim(), None),
            };
            let (parents, absolute, segs, sp) = read_path(path).ok_or_else(|| format!("line {}: {l}", i + 1))?;
            let items = if segs.len() > 1 { vec![(segs.last().unwrap().clone(), alias)] } else { vec![] };
            out.push(Imp { line: i + 1, text: l.to_string(), stmt: Stmt::Import, parents, absolute, segs, items, parent_spelling: sp });
        }
    }
    Ok(out)
}

/// Top-level declarations of a generated module: name -> is_pub.
fn read_decls(src: &str) -> BTreeMap<String, bool> {
    let mut out = BTreeMap::new();
    for line in src.lines() {
        let (is_pub, rest) = match line.strip_prefix("pub ") {
            Some(r) => (true, r),
            None => (false, line),
        };
        for kw in ["def ", "const ", "model ", "class ", "enum ", "type ", "trait "] {
            if let Some(r) = rest.strip_prefix(kw) {
                let name: String = r.chars().take_while(|c| c.is_ascii_alphanumeric() || *c == '_').collect();
                if !name.is_empty() {
                    out.insert(name, is_pub);
                }
            }
        }
    }
    out
}

// =====================================================================================================
// Reference resolver (docs)
// =====================================================================================================

#[derive(Clone, Debug, PartialEq, Eq)]
enum Target {
    /// documented: `<path>.incn` or `<path>/mod.incn`, the only candidate present
    File(String),
    /// the only candidate is a `.incan` file (the docs never mention that extension): agreement only
    Undoc(String),
    /// several candidates present (docs give no priority): agreement only
    Ambiguous(Vec<String>),
    Missing,
    /// the docs do not define this form/situation: agreement only
    Unspecified(&'static str),
}

/// Project root per docs ("looking for Cargo.toml or a src/ directory"), searched upwards from `dir`.
fn ref_root(tree: &Tree, dir: &str) -> Result<String, &'static str> {
    let mut d = dir.to_string();
    loop {
        let cargo = tree.has(&join(&d, "Cargo.toml"));
        let src = tree.dir_exists(&join(&d, "src"));
        if cargo && src {
            return Err("root-has-cargo-and-src");
        }
        if src {
            return Ok(join(&d, "src"));
        }
        if cargo {
            return Ok(d);
        }
        if d.is_empty() {
            return Err("no-root-marker");
        }
        d = parent_dir(&d);
    }
}

fn ref_resolve(tree: &Tree, importer: &str, imp: &Imp) -> Target {
    if imp.stmt == Stmt::Import && imp.segs.len() < 2 {
        return Target::Unspecified("import-of-bare-module");
    }
    let idir = parent_dir(importer);
    let edir = parent_dir(&tree.entry);
    let base = if imp.absolute {
        // the root must not depend on where the search starts
        match (ref_root(tree, &idir), ref_root(tree, &edir)) {
            (Ok(a), Ok(b)) if a == b => a,
            (Err(e), _) | (_, Err(e)) => return Target::Unspecified(e),
            _ => return Target::Unspecified("root-differs-by-start"),
        }
    } else {
        if imp.parents == 0 && importer != tree.entry && idir != edir {
            // "same directory" (path table) vs crate-rooted emission ("Rust crates vs Incan modules"): not settled
            return Target::Unspecified("plain-path-in-nested-module");
        }
        let mut b = idir.clone();
        for _ in 0..imp.parents {
            if b.is_empty() {
                return Target::Unspecified("above-tree-top");
            }
            b = parent_dir(&b);
        }
        b
    };
    let mut p = base;
    for s in imp.module_segs() {
        p = join(&p, s);
    }
    let cands: Vec<String> = [format!("{p}.incn"), format!("{p}.incan"), format!("{p}/mod.incn"), format!("{p}/mod.incan")]
        .into_iter()
        .filter(|c| tree.has(c))
        .collect();
    match cands.len() {
        0 => Target::Missing,
        1 => {
            if cands[0].ends_with(".incn") {
                Target::File(cands[0].clone())
            } else {
                Target::Undoc(cands[0].clone())
            }
        }
        _ => Target::Ambiguous(cands),
    }
}

fn layout_name(tree: &Tree, importer: &str, imp: &Imp, t: &Target) -> String {
    fn one(c: &str) -> &'static str {
        if c.ends_with("/mod.incn") {
            "mod.incn"
        } else if c.ends_with("/mod.incan") {
            "mod.incan"
        } else if c.ends_with(".incan") {
            "incan"
        } else {
            "incn"
        }
    }
    match t {
        Target::File(c) | Target::Undoc(c) => one(c).to_string(),
        Target::Ambiguous(cs) => cs.iter().map(|c| one(c)).collect::<Vec<_>>().join("+"),
        Target::Missing => "missing".to_string(),
        Target::Unspecified(_) => {
            // describe what an importer-relative reading would find (only used for feature naming)
            let mut probe = imp.clone();
            if probe.stmt == Stmt::Import && probe.segs.len() < 2 {
                return "bare".to_string();
            }
            probe.absolute = false;
            let fake_tree = Tree { files: tree.files.clone(), entry: importer.to_string() };
            let idir = parent_dir(importer);
            let mut b = idir;
            for _ in 0..probe.parents {
                b = parent_dir(&b);
            }
            let mut p = if imp.absolute { String::new() } else { b };
            for s in probe.module_segs() {
                p = join(&p, s);
            }
            let cands: Vec<String> = [format!("{p}.incn"), format!("{p}.incan"), format!("{p}/mod.incn"), format!("{p}/mod.incan")]
                .into_iter()
                .filter(|c| fake_tree.has(c))
                .collect();
            if cands.is_empty() {
                "missing".into()
            } else {
                cands.iter().map(|c| one(c)).collect::<Vec<_>>().join("+")
            }
        }
    }
}

#[derive(Clone, Debug)]
struct Edge {
    from: String,
    imp: Imp,
    target: Target,
    feats: BTreeSet<String>,
}

/// Features of an import edge; only the non-default ones are listed (default: `from` statement, un-prefixed
/// one-segment path, written in the entry file, target is a single `.incn` file).
fn edge_feats(tree: &Tree, from: &str, imp: &Imp, target: &Target) -> BTreeSet<String> {
    let mut f = BTreeSet::new();
    if imp.absolute {
        f.insert("prefix=crate".to_string());
        // the project root found from the importing file's directory is not the one found from the entry's
        let a = ref_root(tree, &parent_dir(from));
        let b = ref_root(tree, &parent_dir(&tree.entry));
        if a != b {
            f.insert("root=differs-by-importer".to_string());
        }
    } else if imp.parents > 0 {
        f.insert("prefix=parent".to_string());
    }
    if imp.stmt == Stmt::Import {
        f.insert("stmt=import".into());
    }
    // where the importer sits only matters for paths that are relative to it
    if from != tree.entry && !imp.absolute {
        if parent_dir(from) == parent_dir(&tree.entry) {
            f.insert("importer=dep-same-dir".into());
        } else {
            f.insert("importer=dep-other-dir".into());
        }
    }
    let l = layout_name(tree, from, imp, target);
    match l.as_str() {
        "incn" => {}
        // every candidate is a directory module (`x/mod.incn`, `x/mod.incan`)
        "mod.incn" => {
            f.insert("layout=dir-module".into());
        }
        "mod.incan" => {
            f.insert("layout=dir-module".into());
            f.insert("ext=incan".into());
        }
        "mod.incn+mod.incan" => {
            f.insert("layout=dir-module".into());
            f.insert("ext=both".into());
        }
        _ => {
            f.insert(format!("layout={l}"));
        }
    }
    if imp.module_segs().len() > 1 {
        f.insert("depth=multi".into());
    }
    f
}

/// Files an edge could be about under any reading (importer-relative and entry-relative candidates).
fn edge_candidates(tree: &Tree, e: &Edge) -> Vec<String> {
    let mut out = Vec::new();
    match &e.target {
        Target::File(t) | Target::Undoc(t) => out.push(t.clone()),
        Target::Ambiguous(cs) => out.extend(cs.iter().cloned()),
        _ => {}
    }
    for base_of in [&e.from, &tree.entry] {
        let mut b = parent_dir(base_of);
        for _ in 0..e.imp.parents {
            b = parent_dir(&b);
        }
        let mut p = b;
        for s in e.imp.module_segs() {
            p = join(&p, s);
        }
        for c in [format!("{p}.incn"), format!("{p}.incan"), format!("{p}/mod.incn"), format!("{p}/mod.incan")] {
            if tree.has(&c) && !out.contains(&c) {
                out.push(c);
            }
        }
    }
    out
}

struct RefModel {
    /// edges in BFS order over the reference closure (following File and Undoc targets)
    edges: Vec<Edge>,
    /// files reached (excluding the entry unless it is re-imported)
    closure: BTreeSet<String>,
    /// true when every edge is File or Missing: the closure is defined by the docs
    defined: bool,
    has_cycle: bool,
    unreadable: Option<String>,
}

fn ref_model(tree: &Tree) -> RefModel {
    let mut edges = Vec::new();
    let mut closure = BTreeSet::new();
    let mut visited: BTreeSet<String> = BTreeSet::new();
    let mut queue = std::collections::VecDeque::new();
    let mut defined = true;
    let mut unreadable = None;
    let mut graph: BTreeMap<String, Vec<String>> = BTreeMap::new();
    queue.push_back(tree.entry.clone());
    visited.insert(tree.entry.clone());
    while let Some(f) = queue.pop_front() {
        let Some(src) = tree.get(&f) else { continue };
        let imps = match read_imports(src) {
            Ok(i) => i,
            Err(e) => {
                unreadable = Some(format!("{f}: {e}"));
                continue;
            }
        };
        for imp in imps {
            let target = ref_resolve(tree, &f, &imp);
            let feats = edge_feats(tree, &f, &imp, &target);
            match &target {
                Target::File(t) | Target::Undoc(t) => {
                    if matches!(target, Target::Undoc(_)) {
                        defined = false;
                    }
                    graph.entry(f.clone()).or_default().push(t.clone());
                    closure.insert(t.clone());
                    if visited.insert(t.clone()) {
                        queue.push_back(t.clone());
                    }
                }
                Target::Missing => {}
                Target::Ambiguous(cs) => {
                    defined = false;
                    // enumerate the imports behind every candidate (for blame and known-finding matching only)
                    for c in cs {
                        if visited.insert(c.clone()) {
                            queue.push_back(c.clone());
                        }
                    }
                }
                Target::Unspecified(_) => defined = false,
            }
            edges.push(Edge { from: f.clone(), imp, target, feats });
        }
    }
    // cycle detection (DFS colouring)
    fn dfs(n: &str, g: &BTreeMap<String, Vec<String>>, state: &mut BTreeMap<String, u8>) -> bool {
        state.insert(n.to_string(), 1);
        if let Some(vs) = g.get(n) {
            for v in vs {
                match state.get(v.as_str()).copied().unwrap_or(0) {
                    1 => return true,
                    0 => {
                        if dfs(v, g, state) {
                            return true;
                        }
                    }
                    _ => {}
                }
            }
        }
        state.insert(n.to_string(), 2);
        false
    }
    let mut state = BTreeMap::new();
    let has_cycle = dfs(&tree.entry, &graph, &mut state);
    RefModel { edges, closure, defined, has_cycle, unreadable }
}

// =====================================================================================================
// Observations
// =====================================================================================================

fn rel_of(top: &Path, p: &Path) -> String {
    let c = p.canonicalize().unwrap_or_else(|_| p.to_path_buf());
    match c.strip_prefix(top) {
        Ok(r) => r.to_string_lossy().to_string(),
        Err(_) => format!("<outside>{}", c.display()),
    }
}

/// CLI collector, in-process: set of loaded dependency files (identified by their unique source text).
fn obs_cli_inproc(top: &Path, tree: &Tree) -> Result<BTreeSet<String>, String> {
    let entry = top.join(&tree.entry).to_string_lossy().to_string();
    let r = util::catch(|| collect_modules(&entry));
    match r {
        Err(p) => Err(format!("panic: {p}")),
        Ok(Err(e)) => Err(format!("error: {}", util::truncate(&e.message, 300))),
        Ok(Ok(mods)) => {
            let mut by_src: BTreeMap<&str, &str> = BTreeMap::new();
            for (p, c) in &tree.files {
                by_src.insert(c.as_str(), p.as_str());
            }
            let mut out = BTreeSet::new();
            let n = mods.len();
            for (i, m) in mods.iter().enumerate() {
                let rel = by_src.get(m.source.as_str()).map(|s| s.to_string()).unwrap_or_else(|| "<unknown source>".into());
                // the entry is last; a dependency that *is* the entry file (self import) shows up as a second copy
                if i + 1 == n && rel == tree.entry {
                    continue;
                }
                out.insert(rel);
            }
            Ok(out)
        }
    }
}

/// The compiler's own parse of a file's imports, in source order.
fn real_imports(src: &str) -> Result<Vec<ImportDecl>, String> {
    let toks = util::catch(|| lexer::lex(src)).map_err(|p| format!("lexer panic: {p}"))?.map_err(|e| format!("lex: {}", e.first().map(|x| x.message.clone()).unwrap_or_default()))?;
    let ast = util::catch(|| parser::parse(&toks)).map_err(|p| format!("parser panic: {p}"))?.map_err(|e| format!("parse: {}", e.first().map(|x| x.message.clone()).unwrap_or_default()))?;
    Ok(ast
        .declarations
        .iter()
        .filter_map(|d| if let Declaration::Import(i) = &d.node { Some(i.clone()) } else { None })
        .collect())
}

/// What the parser made of an import path: (is_from, parents, absolute, segments)
fn decl_shape(d: &ImportDecl) -> Option<(bool, usize, bool, Vec<String>)> {
    match &d.kind {
        ImportKind::Module(p) => Some((false, p.parent_levels, p.is_absolute, p.segments.clone())),
        ImportKind::From { module, .. } => Some((true, module.parent_levels, module.is_absolute, module.segments.clone())),
        _ => None,
    }
}

#[derive(Clone, Debug, Default)]
struct LspObs {
    /// dependency files for which the server published (= files it loaded), relative paths
    deps: BTreeSet<String>,
    /// messages of the final diagnostics of the opened document
    entry_diags: Vec<String>,
    /// diagnostics published for other files
    other_diags: Vec<(String, Vec<String>)>,
    finished: bool,
    timed_out: bool,
    panic: Option<String>,
    trouble: Option<String>,
}

impl LspObs {
    fn any_diag(&self) -> bool {
        !self.entry_diags.is_empty() || self.other_diags.iter().any(|(_, d)| !d.is_empty())
    }
}

fn frame(v: &Value) -> Vec<u8> {
    let s = v.to_string();
    format!("Content-Length: {}\r\n\r\n{}", s.len(), s).into_bytes()
}

async fn read_msg<R: tokio::io::AsyncBufRead + Unpin>(r: &mut R) -> Option<Value> {
    use tokio::io::{AsyncBufReadExt, AsyncReadExt};
    let mut len = 0usize;
    loop {
        let mut line = String::new();
        let n = r.read_line(&mut line).await.ok()?;
        if n == 0 {
            return None;
        }
        let l = line.trim_end();
        if l.is_empty() {
            break;
        }
        if let Some(v) = l.strip_prefix("Content-Length:") {
            len = v.trim().parse().ok()?;
        }
    }
    let mut buf = vec![0u8; len];
    r.read_exact(&mut buf).await.ok()?;
    serde_json::from_slice(&buf).ok()
}

/// Drive the real language server in-process (same wiring as src/bin/lsp.rs, stdio replaced by an in-memory
/// duplex): initialize, initialized, didOpen(entry) and collect publishDiagnostics until the opened document's
/// own (versioned) diagnostics arrive.
fn obs_lsp(top: &Path, tree: &Tree, open_rel: &str, timeout: Duration) -> LspObs {
    let mut obs = LspObs::default();
    let path = top.join(open_rel);
    let Ok(uri) = Url::from_file_path(&path) else {
        obs.trouble = Some("uri".into());
        return obs;
    };
    let text = tree.get(open_rel).unwrap_or("").to_string();
    let rt = match tokio::runtime::Builder::new_current_thread().enable_all().build() {
        Ok(rt) => rt,
        Err(e) => {
            obs.trouble = Some(format!("runtime: {e}"));
            return obs;
        }
    };
    let uri_s = uri.to_string();
    let result = util::catch(|| {
        rt.block_on(async {
            use tokio::io::AsyncWriteExt;
            let mut o = LspObs::default();
            let (service, socket) = LspService::new(IncanLanguageServer::new);
            let (client_io, server_io) = tokio::io::duplex(1 << 20);
            let (sr, sw) = tokio::io::split(server_io);
            let server = Server::new(sr, sw, socket).serve(service);
            let (cr, mut cw) = tokio::io::split(client_io);
            let mut cr = tokio::io::BufReader::new(cr);
            let client = async {
                let init = json!({"jsonrpc":"2.0","id":1,"method":"initialize","params":{"processId":null,"rootUri":null,"capabilities":{}}});
                if cw.write_all(&frame(&init)).await.is_err() {
                    o.trouble = Some("write initialize".into());
                    return o;
                }
                loop {
                    match tokio::time::timeout(timeout, read_msg(&mut cr)).await {
                        Err(_) => {
                            o.timed_out = true;
                            return o;
                        }
                        Ok(None) => {
                            o.trouble = Some("eof before initialize result".into());
                            return o;
                        }
                        Ok(Some(m)) => {
                            if m.get("id").and_then(|i| i.as_i64()) == Some(1) {
                                break;
                            }
                        }
                    }
                }
                let inited = json!({"jsonrpc":"2.0","method":"initialized","params":{}});
                let open = json!({"jsonrpc":"2.0","method":"textDocument/didOpen","params":{"textDocument":{"uri":uri_s,"languageId":"incan","version":1,"text":text}}});
                if cw.write_all(&frame(&inited)).await.is_err() || cw.write_all(&frame(&open)).await.is_err() {
                    o.trouble = Some("write didOpen".into());
                    return o;
                }
                loop {
                    match tokio::time::timeout(timeout, read_msg(&mut cr)).await {
                        Err(_) => {
                            o.timed_out = true;
                            return o;
                        }
                        Ok(None) => {
                            o.trouble = Some("eof before diagnostics".into());
                            return o;
                        }
                        Ok(Some(m)) => {
                            if m.get("method").and_then(|x| x.as_str()) != Some("textDocument/publishDiagnostics") {
                                continue;
                            }
                            let p = &m["params"];
                            let u = p["uri"].as_str().unwrap_or("").to_string();
                            let msgs: Vec<String> = p["diagnostics"]
                                .as_array()
                                .map(|a| a.iter().map(|d| d["message"].as_str().unwrap_or("").to_string()).collect())
                                .unwrap_or_default();
                            let versioned = p.get("version").map(|v| !v.is_null()).unwrap_or(false);
                            if u == uri_s && versioned {
                                o.entry_diags = msgs;
                                o.finished = true;
                                return o;
                            }
                            let rel = Url::parse(&u).ok().and_then(|x| x.to_file_path().ok()).map(|fp| rel_of(top, &fp)).unwrap_or(u);
                            o.deps.insert(rel.clone());
                            if !msgs.is_empty() {
                                o.other_diags.push((rel, msgs));
                            }
                        }
                    }
                }
            };
            tokio::pin!(server);
            tokio::pin!(client);
            tokio::select! {
                _ = &mut server => { let mut e = LspObs::default(); e.trouble = Some("server ended early".into()); e }
                r = &mut client => r,
            }
        })
    });
    match result {
        Ok(o) => o,
        Err(p) => {
            obs.panic = Some(p);
            obs
        }
    }
}

#[derive(Clone, Copy, Debug, PartialEq, Eq)]
enum Invoke {
    /// `incan --check /abs/path/main.incn`
    Abs,
    /// cwd = directory of the entry, `incan --check main.incn`
    RelEntryDir,
    /// cwd = tree top, `incan --check src/pa/main.incn`
    RelTop,
}

impl Invoke {
    fn name(self) -> &'static str {
        match self {
            Invoke::Abs => "abs",
            Invoke::RelEntryDir => "rel-entrydir",
            Invoke::RelTop => "rel-top",
        }
    }
    fn parse(s: &str) -> Invoke {
        match s {
            "rel-entrydir" => Invoke::RelEntryDir,
            "rel-top" => Invoke::RelTop,
            _ => Invoke::Abs,
        }
    }
}

fn strip_ansi(s: &str) -> String {
    let mut out = String::new();
    let mut it = s.chars();
    while let Some(c) = it.next() {
        if c == '\x1b' {
            for d in it.by_ref() {
                if d == 'm' {
                    break;
                }
            }
        } else {
            out.push(c);
        }
    }
    out
}

#[derive(Clone, Debug)]
struct CliObs {
    status: Option<i32>,
    signal: Option<i32>,
    timed_out: bool,
    text: String,
}

impl CliObs {
    fn crashed(&self) -> bool {
        self.signal.is_some() || self.status == Some(101) || self.text.contains("panicked at")
    }
    fn accepted(&self) -> bool {
        self.status == Some(0) && !self.timed_out
    }
    /// rejected with a diagnostic: non-zero exit and some text
    fn rejected(&self) -> bool {
        !self.timed_out && !self.crashed() && matches!(self.status, Some(c) if c != 0) && !self.text.trim().is_empty()
    }
}

fn obs_cli(top: &Path, tree: &Tree, invoke: Invoke, timeout: Duration) -> CliObs {
    let mut c = Command::new(vf::incan_bin());
    c.arg("--check");
    match invoke {
        Invoke::Abs => {
            c.arg(top.join(&tree.entry)).current_dir(top);
        }
        Invoke::RelEntryDir => {
            let d = parent_dir(&tree.entry);
            let name = tree.entry.rsplit('/').next().unwrap_or(&tree.entry).to_string();
            c.arg(name).current_dir(top.join(d));
        }
        Invoke::RelTop => {
            c.arg(&tree.entry).current_dir(top);
        }
    }
    c.env("NO_COLOR", "1");
    let r = vf::run_cmd(c, timeout);
    CliObs { status: r.status, signal: r.signal, timed_out: r.timed_out, text: strip_ansi(&format!("{}\n{}", r.stdout, r.stderr)) }
}

// =====================================================================================================
// Known findings as feature sets
// =====================================================================================================

#[derive(Clone, Debug, PartialEq, Eq)]
struct Fail {
    key: String,
    what: String,
    /// a watchdog fired: to be confirmed alone before it counts
    hang: bool,
}

fn mk_key(leg: &str, class: &str, feats: &BTreeSet<String>) -> String {
    format!("{leg}:{class}:{}", feats.iter().cloned().collect::<Vec<_>>().join(","))
}

fn split_key(key: &str) -> Option<(String, String, BTreeSet<String>)> {
    let mut it = key.splitn(3, ':');
    let leg = it.next()?.to_string();
    let class = it.next()?.to_string();
    let feats = it.next().unwrap_or("").split(',').filter(|s| !s.is_empty()).map(|s| s.to_string()).collect();
    Some((leg, class, feats))
}

#[derive(Clone, Debug, Default)]
struct KnownSet {
    entries: Vec<(String, String, BTreeSet<String>, String)>,
}

impl KnownSet {
    fn from_outcome(out: &Outcome) -> KnownSet {
        let mut k = KnownSet::default();
        for e in &out.known.open {
            if let Some((l, c, f)) = split_key(&e.key) {
                k.entries.push((l, c, f, e.key.clone()));
            }
        }
        k
    }
    /// A known finding of one of `legs` x `classes` whose feature set is contained in `feats`.
    fn hit(&self, legs: &[&str], classes: &[&str], feats: &BTreeSet<String>) -> Option<&str> {
        self.entries
            .iter()
            .find(|(l, c, f, _)| legs.contains(&l.as_str()) && classes.contains(&c.as_str()) && f.is_subset(feats))
            .map(|e| e.3.as_str())
    }
    fn has_key(&self, key: &str) -> bool {
        self.entries.iter().any(|e| e.3 == key)
    }
}

#[derive(Default)]
struct Judged {
    fails: Vec<Fail>,
    /// known-finding keys because of which a judgement was not made
    excluded: Vec<String>,
    /// engine trouble (not a verdict)
    trouble: Vec<String>,
    /// judgements actually made, by leg
    made: Vec<&'static str>,
}

impl Judged {
    fn fail(&mut self, key: String, what: String) {
        self.fails.push(Fail { key, what, hang: false });
    }
    fn merge(&mut self, o: Judged) {
        self.fails.extend(o.fails);
        self.excluded.extend(o.excluded);
        self.trouble.extend(o.trouble);
        self.made.extend(o.made);
    }
}

fn spelling_name(imp: &Imp) -> String {
    let base = match imp.parent_spelling {
        ".." => "dotdot",
        "..." => "dotdotdot",
        "super" => "super",
        _ => {
            if imp.absolute {
                "crate"
            } else {
                "plain"
            }
        }
    };
    base.to_string()
}

fn panic_site(text: &str) -> String {
    // "thread 'main' panicked at src/x.rs:12:5:" -> src/x.rs:12
    if let Some(i) = text.find("panicked at ") {
        let rest = &text[i + 12..];
        let site: String = rest.chars().take_while(|c| !c.is_whitespace() && *c != ',').collect();
        let mut parts = site.split(':');
        let f = parts.next().unwrap_or("");
        let l = parts.next().unwrap_or("");
        return format!("{f}:{l}");
    }
    if let Some(i) = text.rfind(" @ ") {
        return text[i + 3..].to_string();
    }
    "unknown".to_string()
}

// =====================================================================================================
// Judging resolution (in-process legs)
// =====================================================================================================

const LSP_TIMEOUT: Duration = Duration::from_secs(60);
const CLI_TIMEOUT: Duration = Duration::from_secs(60);
const ALONE_TIMEOUT: Duration = Duration::from_secs(180);

/// Compare a loaded set with the reference closure; returns (class, blamed edge) of the first discrepancy.
fn closure_diff<'a>(tree: &Tree, model: &'a RefModel, loaded: &BTreeSet<String>) -> Option<(&'static str, &'a Edge, String)> {
    let mut want = model.closure.clone();
    want.remove(&tree.entry);
    let mut got = loaded.clone();
    got.remove(&tree.entry);
    if want == got {
        return None;
    }
    for e in &model.edges {
        if let Target::File(t) = &e.target {
            if (e.from == tree.entry || got.contains(&e.from)) && !got.contains(t) && *t != tree.entry {
                return Some(("resolve", e, format!("{} line {} `{}` must load {t}; loaded set {:?}", e.from, e.imp.line, e.imp.text, got)));
            }
        }
    }
    let extra: Vec<&String> = got.difference(&want).collect();
    let blamed = model
        .edges
        .iter()
        .find(|e| matches!(e.target, Target::Missing) && (e.from == tree.entry || got.contains(&e.from)))
        .or_else(|| model.edges.first());
    blamed.map(|e| ("resolve-extra", e, format!("loaded {:?} which no import refers to (reference closure {:?}); nearest import: {} line {} `{}`", extra, want, e.from, e.imp.line, e.imp.text)))
}

fn judge_resolution(top: &Path, tree: &Tree, known: &KnownSet, strict: bool) -> Judged {
    let mut j = Judged::default();
    let model = ref_model(tree);
    if let Some(u) = &model.unreadable {
        j.trouble.push(format!("reference reader: {u}"));
        return j;
    }
    let kn = |legs: &[&str], classes: &[&str], feats: &BTreeSet<String>| -> Option<String> {
        if strict {
            None
        } else {
            known.hit(legs, classes, feats).map(|s| s.to_string())
        }
    };

    // ---- parser leg: every generated spelling is documented; the compiler must read it as the docs say
    let files: Vec<String> = tree.files.iter().map(|(p, _)| p.clone()).filter(|p| p.ends_with(".incn") || p.ends_with(".incan")).collect();
    let mut decls_of: BTreeMap<String, Vec<ImportDecl>> = BTreeMap::new();
    let mut parse_bad = false;
    for f in &files {
        let Some(src) = tree.get(f) else { continue };
        if src.contains("poison_") {
            continue;
        }
        let Ok(mine) = read_imports(src) else { continue };
        match real_imports(src) {
            Ok(ds) => {
                j.made.push("parse");
                let shapes: Vec<_> = ds.iter().filter_map(decl_shape).collect();
                let want: Vec<_> = mine.iter().map(|m| (m.stmt == Stmt::From, m.parents, m.absolute, m.segs.clone())).collect();
                if shapes != want {
                    let bad = mine.iter().zip(shapes.iter()).find(|(m, s)| (m.stmt == Stmt::From, m.parents, m.absolute, m.segs.clone()) != **s);
                    let (sp, text) = bad.map(|(m, _)| (spelling_name(m), m.text.clone())).unwrap_or(("count".into(), f.clone()));
                    let mut fs = BTreeSet::new();
                    fs.insert(format!("spelling={sp}"));
                    j.fail(mk_key("parse", "shape", &fs), format!("{f}: `{text}` parsed as {:?}, docs say {:?}", shapes, want));
                    parse_bad = true;
                } else {
                    decls_of.insert(f.clone(), ds);
                }
            }
            Err(e) => {
                parse_bad = true;
                // find the import line the parser refuses
                let mut blamed = false;
                for m in &mine {
                    if let Err(e1) = real_imports(&format!("{}\n", m.text)) {
                        let mut fs = BTreeSet::new();
                        fs.insert(format!("spelling={}", spelling_name(m)));
                        if m.stmt == Stmt::Import {
                            fs.insert("stmt=import".into());
                        }
                        j.fail(mk_key("parse", "reject", &fs), format!("{f}: documented import `{}` is refused: {e1}", m.text));
                        blamed = true;
                        break;
                    }
                }
                if !blamed {
                    j.trouble.push(format!("generated file {f} does not parse: {e}"));
                }
            }
        }
    }
    if parse_bad {
        return j;
    }

    // ---- LSP resolver, per import
    let mut lsp_known: Option<String> = None;
    let mut cli_known: Option<String> = None;
    let mut agree_known: Option<String> = None;
    for e in &model.edges {
        if lsp_known.is_none() {
            lsp_known = kn(&["lsp"], &["resolve"], &e.feats);
        }
        if cli_known.is_none() {
            cli_known = kn(&["cli"], &["resolve"], &e.feats);
        }
        if agree_known.is_none() {
            agree_known = kn(&["agree"], &["resolve"], &e.feats);
        }
    }
    let mut lsp_import_ok = true;
    let mut idx_in_file: BTreeMap<String, usize> = BTreeMap::new();
    for e in &model.edges {
        let i = *idx_in_file.entry(e.from.clone()).and_modify(|x| *x += 1).or_insert(0);
        let Some(ds) = decls_of.get(&e.from) else { continue };
        let Some(d) = ds.get(i) else { continue };
        let base = top.join(parent_dir(&e.from));
        let got = match util::catch(|| resolve_import_path(&base, d)) {
            Ok(g) => g.map(|p| rel_of(top, &p)),
            Err(p) => {
                j.fail(format!("lsp:crash:{}", panic_site(&p)), format!("resolve_import_path panicked on `{}`: {p}", e.imp.text));
                lsp_import_ok = false;
                continue;
            }
        };
        let want = match &e.target {
            Target::File(t) => Some(Some(t.clone())),
            Target::Missing => Some(None),
            _ => None,
        };
        if let Some(want) = want {
            if let Some(k) = kn(&["lsp"], &["resolve"], &e.feats) {
                j.excluded.push(k);
                continue;
            }
            j.made.push("lsp-import");
            if got != want {
                lsp_import_ok = false;
                j.fail(
                    mk_key("lsp", "resolve", &e.feats),
                    format!("resolve_import_path({}, `{}`) = {:?}, docs say {:?}", parent_dir(&e.from), e.imp.text, got, want),
                );
            }
        }
    }

    // ---- CLI collector (in-process, absolute entry path)
    let cli = obs_cli_inproc(top, tree);
    let mut cli_set: Option<BTreeSet<String>> = None;
    match &cli {
        Err(m) if m.starts_with("panic") => j.fail(format!("cli:crash:{}", panic_site(m)), format!("collect_modules: {m}")),
        Err(m) => {
            // every generated file parses, so an error here is a verdict about resolution
            let feats = model.edges.first().map(|e| e.feats.clone()).unwrap_or_default();
            if let Some(k) = &cli_known {
                j.excluded.push(k.clone());
            } else {
                j.made.push("cli-closure");
                j.fail(mk_key("cli", "resolve-error", &feats), format!("collect_modules fails on a tree of well-formed files: {m}"));
            }
        }
        Ok(set) => {
            cli_set = Some(set.clone());
            if model.defined {
                if let Some(k) = &cli_known {
                    j.excluded.push(k.clone());
                } else {
                    j.made.push("cli-closure");
                    if let Some((class, e, what)) = closure_diff(tree, &model, set) {
                        j.fail(mk_key("cli", class, &e.feats), format!("collect_modules: {what}"));
                    }
                }
            }
        }
    }

    // ---- the language server itself
    let lsp = obs_lsp(top, tree, &tree.entry, LSP_TIMEOUT);
    let mut lsp_set: Option<BTreeSet<String>> = None;
    if let Some(p) = &lsp.panic {
        j.fail(format!("lsp:crash:{}", panic_site(p)), format!("language server panicked on didOpen: {p}"));
    } else if lsp.timed_out {
        j.fails.push(Fail { key: "hang:lsp:didOpen".into(), what: "no diagnostics for the opened document within the watchdog".into(), hang: true });
    } else if let Some(t) = &lsp.trouble {
        j.trouble.push(format!("lsp harness: {t}"));
    } else {
        lsp_set = Some(lsp.deps.clone());
        if model.defined && lsp_import_ok {
            if let Some(k) = &lsp_known {
                j.excluded.push(k.clone());
            } else {
                j.made.push("lsp-closure");
                if let Some((class, e, what)) = closure_diff(tree, &model, &lsp.deps) {
                    let class = if class == "resolve" { "closure" } else { "closure-extra" };
                    j.fail(mk_key("lsp", class, &e.feats), format!("language server (didOpen): {what}"));
                }
            }
        }
    }

    // ---- agreement where the docs do not decide
    if !model.defined {
        if let (Some(a), Some(b)) = (&cli_set, &lsp_set) {
            if let Some(k) = cli_known.clone().or(lsp_known.clone()).or(agree_known.clone()) {
                j.excluded.push(k);
            } else {
                j.made.push("agree");
                let mut a = a.clone();
                let mut b = b.clone();
                a.remove(&tree.entry);
                b.remove(&tree.entry);
                if a != b {
                    let diff: BTreeSet<String> = a.symmetric_difference(&b).cloned().collect();
                    let e = model
                        .edges
                        .iter()
                        .find(|e| edge_candidates(tree, e).iter().any(|c| diff.contains(c)))
                        .or(model.edges.iter().find(|e| !matches!(e.target, Target::File(_) | Target::Missing)))
                        .or(model.edges.first());
                    let feats = e.map(|e| e.feats.clone()).unwrap_or_default();
                    let text = e.map(|e| format!("{} `{}`", e.from, e.imp.text)).unwrap_or_default();
                    j.fail(mk_key("agree", "resolve", &feats), format!("CLI loads {:?}, language server loads {:?} (undocumented case: {text})", a, b));
                }
            }
        }
    }
    j
}

// =====================================================================================================
// Judging verdicts (real CLI + language server): visibility, cycles, missing modules, poisoned targets
// =====================================================================================================

fn kind_of_item(name: &str) -> &'static str {
    if name.starts_with("f_") {
        "function"
    } else if name.starts_with("C_") {
        "const"
    } else if name.starts_with('M') {
        "model"
    } else if name.starts_with('K') {
        "class"
    } else if name.starts_with('E') {
        "enum"
    } else if name.starts_with('N') {
        "newtype"
    } else if name.starts_with('T') {
        "trait"
    } else {
        "other"
    }
}

#[derive(Clone, Debug)]
#[allow(dead_code)]
enum Expect {
    Accept(BTreeSet<String>),
    /// must end with a diagnostic: (class, features, what, judged on the language server too)
    Bad(&'static str, BTreeSet<String>, String, bool),
    Unjudged(String),
}

fn expectation(tree: &Tree, model: &RefModel) -> Expect {
    if !model.defined {
        return Expect::Unjudged("layout not decided by the docs".into());
    }
    let mut first_entry_feats: Option<BTreeSet<String>> = None;
    let mut transitive: Option<Expect> = None;
    // entry-level visibility first
    for e in &model.edges {
        let Target::File(t) = &e.target else { continue };
        let decls = read_decls(tree.get(t).unwrap_or(""));
        for (name, alias) in &e.imp.items {
            let mut f = e.feats.clone();
            let k = kind_of_item(name);
            if k != "function" {
                f.insert(format!("kind={k}"));
            }
            if alias.is_some() {
                f.insert("alias".into());
            }
            if e.imp.items.len() > 1 {
                f.insert("multi".into());
            }
            let status = decls.get(name).copied();
            if status != Some(true) {
                if status.is_none() {
                    f.insert("item=missing".into());
                }
                let what = format!("{} line {} `{}`: `{name}` is {} in {t}", e.from, e.imp.line, e.imp.text, if status.is_none() { "not declared" } else { "not pub" });
                if e.from == tree.entry {
                    return Expect::Bad("vis-accept", f, what, true);
                } else if transitive.is_none() {
                    f.retain(|x| !x.starts_with("importer="));
                    f.insert("transitive".into());
                    transitive = Some(Expect::Bad("vis-accept", f, what, false));
                }
            } else if e.from == tree.entry && first_entry_feats.is_none() {
                first_entry_feats = Some(f);
            }
        }
    }
    for e in &model.edges {
        if matches!(e.target, Target::Missing) {
            let mut f = BTreeSet::new();
            f.insert("what=missing-module".to_string());
            if e.imp.stmt == Stmt::Import {
                f.insert("stmt=import".into());
            }
            if e.from != tree.entry {
                f.insert("importer=dep".into());
            }
            return Expect::Bad("nodiag", f, format!("{} line {} `{}`: no such module", e.from, e.imp.line, e.imp.text), true);
        }
    }
    if model.has_cycle {
        let mut f = BTreeSet::new();
        f.insert("what=cycle".to_string());
        return Expect::Bad("nodiag", f, "the import graph has a cycle".into(), true);
    }
    if let Some(t) = transitive {
        return t;
    }
    Expect::Accept(first_entry_feats.unwrap_or_else(|| model.edges.first().map(|e| e.feats.clone()).unwrap_or_default()))
}

fn judge_verdict(top: &Path, tree: &Tree, invoke: Invoke, known: &KnownSet, strict: bool, cli_timeout: Duration, lsp_timeout: Duration) -> Judged {
    let mut j = Judged::default();
    let model = ref_model(tree);
    if let Some(u) = &model.unreadable {
        j.trouble.push(format!("reference reader: {u}"));
        return j;
    }
    let kn = |legs: &[&str], classes: &[&str], feats: &BTreeSet<String>| -> Option<String> {
        if strict {
            None
        } else {
            known.hit(legs, classes, feats).map(|s| s.to_string())
        }
    };
    let inv_feat = |f: &BTreeSet<String>| -> BTreeSet<String> {
        let mut f = f.clone();
        if invoke != Invoke::Abs {
            f.insert(format!("invoke={}", invoke.name()));
            // for crate-rooted paths it matters whether the entry sits in the root directory itself
            if f.contains("prefix=crate") && ref_root(tree, &parent_dir(&tree.entry)).map(|r| r != parent_dir(&tree.entry)).unwrap_or(false) {
                f.insert("entry=below-root".into());
            }
        }
        f
    };
    // a known resolution defect anywhere in the tree makes the tool's verdict on a bad program meaningless
    let mut cli_res_known = None;
    let mut lsp_res_known = None;
    for e in &model.edges {
        if cli_res_known.is_none() {
            cli_res_known = kn(&["cli"], &["resolve"], &inv_feat(&e.feats));
        }
        if lsp_res_known.is_none() {
            lsp_res_known = kn(&["lsp"], &["resolve", "closure"], &e.feats);
        }
    }
    let expect = expectation(tree, &model);
    let cli = obs_cli(top, tree, invoke, cli_timeout);
    let lsp = obs_lsp(top, tree, &tree.entry, lsp_timeout);

    // crash / hang: always judged
    if cli.timed_out {
        j.fails.push(Fail { key: format!("hang:cli:invoke={}", invoke.name()), what: "incan --check did not finish within the watchdog".into(), hang: true });
    } else if cli.crashed() {
        j.fail(format!("cli:crash:{}", panic_site(&cli.text)), format!("incan --check crashed (status {:?}, signal {:?}): {}", cli.status, cli.signal, util::truncate(&cli.text, 600)));
    }
    if let Some(p) = &lsp.panic {
        j.fail(format!("lsp:crash:{}", panic_site(p)), format!("language server panicked on didOpen: {p}"));
    } else if lsp.timed_out {
        j.fails.push(Fail { key: "hang:lsp:didOpen".into(), what: "no diagnostics for the opened document within the watchdog".into(), hang: true });
    } else if let Some(t) = &lsp.trouble {
        j.trouble.push(format!("lsp harness: {t}"));
    }
    let cli_ok = !cli.timed_out && !cli.crashed();
    let lsp_ok = lsp.finished;

    // poisoned target: loaded iff the marker is reported
    if let Some((prel, psrc)) = tree.files.iter().find(|(_, c)| c.contains("poison_")) {
        let marker: String = psrc[psrc.find("poison_").unwrap()..].chars().take_while(|c| c.is_ascii_alphanumeric() || *c == '_').collect();
        if model.defined && model.closure.contains(prel) {
            let e = model.edges.iter().find(|e| matches!(&e.target, Target::File(t) if t == prel)).unwrap();
            let f = inv_feat(&e.feats);
            if let Some(k) = cli_res_known.clone() {
                j.excluded.push(k);
            } else if cli_ok {
                j.made.push("cli-poison");
                if !(cli.rejected() && cli.text.contains(&marker)) {
                    j.fail(mk_key("cli", "resolve", &f), format!("{} `{}` must load {prel} (which has a syntax error at `{marker}`), but incan --check says: {}", e.from, e.imp.text, util::truncate(cli.text.trim(), 300)));
                }
            }
            if let Some(k) = lsp_res_known.clone() {
                j.excluded.push(k);
            } else if lsp_ok {
                j.made.push("lsp-poison");
                let seen = lsp.other_diags.iter().any(|(r, d)| r == prel && !d.is_empty());
                if !seen {
                    j.fail(mk_key("lsp", "closure", &e.feats), format!("{} `{}` must load {prel} (which has a syntax error), language server published {:?} / {:?}", e.from, e.imp.text, lsp.other_diags, lsp.entry_diags));
                }
            }
        }
        return j;
    }

    match expect {
        Expect::Unjudged(_) => {}
        Expect::Accept(f) => {
            let mut fc = inv_feat(&f);
            let mut f = f;
            // two loaded modules that share a name: both the CLI and the language server register a dependency's
            // exports under its import path joined with `_` (prefix dropped), so `ma.ma` and `..ma.ma` collide
            let mut by_joined: BTreeMap<String, BTreeSet<String>> = BTreeMap::new();
            for e in &model.edges {
                if let Target::File(t) = &e.target {
                    by_joined.entry(e.imp.module_segs().join("_")).or_default().insert(t.clone());
                }
            }
            if by_joined.values().any(|v| v.len() > 1) {
                fc.insert("collide=joined-path".into());
                f.insert("collide=joined-path".into());
            }
            // an unresolved module leaves a placeholder symbol behind; some uses of it are refused (consequence of
            // the resolution finding, not a verdict about visibility)
            if let Some(k) = cli_res_known.clone().or_else(|| kn(&["cli"], &["vis-reject"], &fc)) {
                j.excluded.push(k);
            } else if cli_ok {
                j.made.push("cli-accept");
                if !cli.accepted() {
                    j.fail(mk_key("cli", "vis-reject", &fc), format!("a program that only uses pub items is rejected: {}", util::truncate(cli.text.trim(), 400)));
                }
            }
            if let Some(k) = lsp_res_known.clone().or_else(|| kn(&["lsp"], &["vis-reject"], &f)) {
                j.excluded.push(k);
            } else if lsp_ok {
                j.made.push("lsp-accept");
                if lsp.any_diag() {
                    j.fail(mk_key("lsp", "vis-reject", &f), format!("a program that only uses pub items gets diagnostics: {:?} {:?}", lsp.entry_diags, lsp.other_diags));
                }
            }
        }
        Expect::Bad(class, f, what, on_lsp) => {
            let fc = inv_feat(&f);
            let res_classes: &[&str] = if class == "vis-accept" { &["vis-accept"] } else { &["nodiag"] };
            let ck = if class == "vis-accept" { cli_res_known.clone() } else { None }.or_else(|| kn(&["cli"], res_classes, &fc));
            if let Some(k) = ck {
                j.excluded.push(k);
            } else if cli_ok {
                j.made.push("cli-reject");
                if !cli.rejected() {
                    j.fail(mk_key("cli", class, &fc), format!("{what}; incan --check (status {:?}) says: {}", cli.status, util::truncate(cli.text.trim(), 300)));
                }
            }
            if on_lsp {
                let lk = if class == "vis-accept" { lsp_res_known.clone() } else { None }.or_else(|| kn(&["lsp"], res_classes, &f));
                if let Some(k) = lk {
                    j.excluded.push(k);
                } else if lsp_ok {
                    j.made.push("lsp-reject");
                    if !lsp.any_diag() {
                        j.fail(mk_key("lsp", class, &f), format!("{what}; the language server publishes no diagnostic"));
                    }
                }
            }
        }
    }
    j
}

// =====================================================================================================
// Generators: specs (proptest, shrinkable) -> trees (by construction)
// =====================================================================================================

#[derive(Clone, Debug)]
struct Ctx {
    /// 0 none, 1 `src/` directory, 2 `Cargo.toml`
    marker: u8,
    /// directories between the root and the entry file (0..=2)
    entry_dirs: Vec<u8>,
}

#[derive(Clone, Debug)]
struct EdgeSpec {
    importer: u16,
    /// 0 plain, 1 parent, 2 crate
    prefix: u8,
    up: u8,
    sub: Vec<u8>,
    stem: u8,
    layout: u8,
    stmt_import: bool,
    sep_colon: bool,
    parent_super: bool,
    alias: bool,
    multi: bool,
}

const LAYOUTS: [&str; 11] = ["incn", "mod.incn", "incan", "mod.incan", "missing", "incn+mod.incn", "incn+incan", "incan+mod.incn", "mod.incn+mod.incan", "incan+mod.incan", "incn+incan+mod.incn+mod.incan"];
/// weighted, monotone (index 0 = simplest) layout table
const LAYOUT_TABLE: [u8; 32] = [0, 0, 0, 0, 0, 0, 0, 0, 0, 0, 0, 0, 0, 0, 0, 0, 1, 1, 1, 2, 2, 2, 3, 4, 4, 4, 5, 6, 7, 8, 9, 10];

#[derive(Clone, Copy, Debug, PartialEq, Eq)]
enum Kind {
    Function,
    Const,
    Model,
    Class,
    Enum,
    Newtype,
    Trait,
}
const KINDS: [Kind; 7] = [Kind::Function, Kind::Const, Kind::Model, Kind::Class, Kind::Enum, Kind::Newtype, Kind::Trait];

impl Kind {
    fn name(self) -> &'static str {
        match self {
            Kind::Function => "function",
            Kind::Const => "const",
            Kind::Model => "model",
            Kind::Class => "class",
            Kind::Enum => "enum",
            Kind::Newtype => "newtype",
            Kind::Trait => "trait",
        }
    }
}

fn item_name(kind: Kind, public: bool, id: usize) -> String {
    let p = if public { "Pub" } else { "Priv" };
    match kind {
        Kind::Function => format!("f_{}_{id}", p.to_lowercase()),
        Kind::Const => format!("C_{}_{id}", p.to_uppercase()),
        Kind::Model => format!("M{p}{id}"),
        Kind::Class => format!("K{p}{id}"),
        Kind::Enum => format!("E{p}{id}"),
        Kind::Newtype => format!("N{p}{id}"),
        Kind::Trait => format!("T{p}{id}"),
    }
}

/// Every module declares a pub and a private item of every kind (names unique per module).
fn module_body(id: usize, priv_first: bool) -> String {
    let mut blocks: Vec<(String, String)> = Vec::new();
    for public in [true, false] {
        let n = |k| item_name(k, public, id);
        let p = if public { "pub " } else { "" };
        let (va, vb) = if public { (format!("VA{id}"), format!("VB{id}")) } else { (format!("VC{id}"), format!("VD{id}")) };
        blocks.push((
            format!("{p}def {}() -> int:\n    return {id}\n", n(Kind::Function)),
            format!(
                "{p}const {}: int = {id}\n\n{p}model {}:\n    x: int\n\n{p}class {}:\n    x: int\n\n{p}enum {}:\n    {va}\n    {vb}\n\n{p}type {} = newtype int\n\n{p}trait {}:\n    def describe(self) -> str: ...\n",
                n(Kind::Const),
                n(Kind::Model),
                n(Kind::Class),
                n(Kind::Enum),
                n(Kind::Newtype),
                n(Kind::Trait)
            ),
        ));
    }
    if priv_first {
        blocks.reverse();
    }
    blocks.iter().map(|(a, b)| format!("{a}\n{b}")).collect::<Vec<_>>().join("\n")
}

#[derive(Clone, Debug)]
struct ModRec {
    id: usize,
    dir: String,
    path: String,
    files: Vec<String>,
    imports: Vec<String>,
    uses_top: Vec<String>,
    uses_body: Vec<String>,
    poison: bool,
    is_entry: bool,
}

#[derive(Clone, Copy, Debug)]
enum ItemChoice {
    Default,
    Specific { kind: Kind, public: bool },
    MissingItem,
}

struct Builder {
    marker: u8,
    srcroot: String,
    mods: Vec<ModRec>,
    by_path: BTreeMap<String, usize>,
    avoid_dotdotdot: bool,
    /// number of times the `...` spelling was replaced because of the known finding
    avoided_dotdotdot: u64,
    n_alias: usize,
    /// class names for the evidence histogram
    classes: Vec<String>,
    priv_first: bool,
}

fn depth_of(dir: &str) -> usize {
    if dir.is_empty() {
        0
    } else {
        dir.split('/').count()
    }
}

impl Builder {
    fn new(ctx: &Ctx, avoid_dotdotdot: bool) -> Builder {
        let srcroot = if ctx.marker == 1 { "w/src".to_string() } else { "w".to_string() };
        let mut dir = srcroot.clone();
        for d in ctx.entry_dirs.iter().take(2) {
            dir = join(&dir, NAMES[*d as usize % NAMES.len()]);
        }
        let entry = ModRec { id: 0, path: join(&dir, "main"), files: vec![join(&dir, "main.incn")], dir, imports: vec![], uses_top: vec![], uses_body: vec![], poison: false, is_entry: true };
        let mut by_path = BTreeMap::new();
        by_path.insert(entry.path.clone(), 0);
        Builder { marker: ctx.marker, srcroot, mods: vec![entry], by_path, avoid_dotdotdot, avoided_dotdotdot: 0, n_alias: 0, classes: vec![], priv_first: ctx.entry_dirs.len() == 1 }
    }

    fn layout_files(path: &str, layout: &str) -> Vec<String> {
        if layout == "missing" {
            return vec![];
        }
        layout
            .split('+')
            .map(|l| match l {
                "incn" => format!("{path}.incn"),
                "incan" => format!("{path}.incan"),
                "mod.incn" => format!("{path}/mod.incn"),
                _ => format!("{path}/mod.incan"),
            })
            .collect()
    }

    /// Add an import from module `importer` as described by `spec`; creates the target module when there is none at
    /// that place yet. Returns the target's index.
    fn add_edge(&mut self, importer: usize, spec: &EdgeSpec, layout: &str, item: ItemChoice) -> usize {
        let idir = self.importer_dir(importer);
        let mut prefix = spec.prefix;
        let mut parents = 0usize;
        let base = match prefix {
            1 => {
                parents = (spec.up.max(1) as usize).min(depth_of(&idir));
                if parents == 0 {
                    prefix = 0;
                    idir.clone()
                } else {
                    let mut b = idir.clone();
                    for _ in 0..parents {
                        b = parent_dir(&b);
                    }
                    b
                }
            }
            2 if self.marker != 0 => self.srcroot.clone(),
            _ => {
                prefix = 0;
                idir.clone()
            }
        };
        let mut tdir = base;
        let mut segs: Vec<String> = Vec::new();
        for s in spec.sub.iter().take(2) {
            if depth_of(&tdir) >= 5 {
                break;
            }
            let n = NAMES[*s as usize % NAMES.len()];
            tdir = join(&tdir, n);
            segs.push(n.to_string());
        }
        let stem = NAMES[spec.stem as usize % NAMES.len()];
        segs.push(stem.to_string());
        let path = join(&tdir, stem);
        let target = match self.by_path.get(&path) {
            Some(&t) => t,
            None => {
                let id = self.mods.len();
                self.mods.push(ModRec { id, dir: tdir.clone(), path: path.clone(), files: Self::layout_files(&path, layout), imports: vec![], uses_top: vec![], uses_body: vec![], poison: false, is_entry: false });
                self.by_path.insert(path, id);
                id
            }
        };
        self.render_import(importer, target, prefix, parents, &segs, spec, item);
        target
    }

    #[allow(clippy::too_many_arguments)]
    fn render_import(&mut self, importer: usize, target: usize, prefix: u8, parents: usize, segs: &[String], spec: &EdgeSpec, item: ItemChoice) {
        let tid = self.mods[target].id;
        let sep = if spec.sep_colon || spec.stmt_import { "::" } else { "." };
        let mut spelling = "plain";
        let pre = match prefix {
            1 => {
                let mut dots = !spec.stmt_import && !spec.parent_super;
                if dots && parents >= 2 && self.avoid_dotdotdot {
                    self.avoided_dotdotdot += 1;
                    dots = false;
                }
                if dots {
                    spelling = if parents == 1 { ".." } else { "..." };
                    ".".repeat(parents + 1)
                } else {
                    spelling = "super";
                    "super::".repeat(parents)
                }
            }
            2 => {
                spelling = "crate";
                format!("crate{sep}")
            }
            _ => String::new(),
        };
        let path = segs.join(sep);
        let (name, kind) = match item {
            ItemChoice::Default => (item_name(Kind::Function, true, tid), Kind::Function),
            ItemChoice::Specific { kind, public } => (item_name(kind, public, tid), kind),
            ItemChoice::MissingItem => (format!("f_nope_{tid}"), Kind::Function),
        };
        self.n_alias += 1;
        let n = self.n_alias;
        let local = if spec.alias { format!("Al{n}") } else { name.clone() };
        let alias = if spec.alias { format!(" as Al{n}") } else { String::new() };
        let line = if spec.stmt_import {
            format!("import {pre}{path}::{name}{alias}")
        } else if spec.multi {
            let second = item_name(Kind::Const, true, tid);
            format!("from {pre}{path} import {name}{alias}, {second} as Bl{n}")
        } else {
            format!("from {pre}{path} import {name}{alias}")
        };
        let public_enum_variant = |public: bool| if public { format!("VA{tid}") } else { format!("VC{tid}") };
        let m = &mut self.mods[importer];
        m.imports.push(line);
        if let ItemChoice::Specific { public, .. } = item {
            match kind {
                Kind::Function => m.uses_body.push(format!("v{n} = {local}()")),
                Kind::Const => m.uses_body.push(format!("println({local})")),
                Kind::Model | Kind::Class => m.uses_body.push(format!("v{n} = {local}(x=1)")),
                Kind::Enum => m.uses_body.push(format!("v{n} = {local}.{}", public_enum_variant(public))),
                Kind::Newtype => m.uses_body.push(format!("v{n} = {local}(3)")),
                Kind::Trait => {
                    m.uses_top.push(format!("class Z{n} with {local}:\n    y: int\n\n    def describe(self) -> str:\n        return \"z\"\n"));
                    m.uses_body.push(format!("v{n} = Z{n}(y=1)"));
                }
            }
        } else if matches!(item, ItemChoice::MissingItem) {
            m.uses_body.push(format!("v{n} = {local}()"));
        }
        self.classes.push(format!("stmt:{}", if spec.stmt_import { "import" } else { "from" }));
        self.classes.push(format!("spelling:{spelling}{}", if !spec.stmt_import && prefix != 1 { if sep == "::" { "/::" } else { "/." } } else { "" }));
        if spec.alias {
            self.classes.push("spelling:as".into());
        }
        if spec.multi && !spec.stmt_import {
            self.classes.push("spelling:multi-item".into());
        }
    }

    /// Import an existing module from `importer` with whatever prefix reaches it (plain if below, else crate, else parents).
    fn link(&mut self, importer: usize, target: usize, spec: &EdgeSpec, item: ItemChoice) -> bool {
        let idir = self.importer_dir(importer);
        let tpath = self.mods[target].path.clone();
        let under = |base: &str, p: &str| -> Option<Vec<String>> {
            if base.is_empty() {
                Some(p.split('/').map(|s| s.to_string()).collect())
            } else {
                p.strip_prefix(&format!("{base}/")).map(|r| r.split('/').map(|s| s.to_string()).collect())
            }
        };
        if spec.prefix == 2 && self.marker != 0 {
            if let Some(segs) = under(&self.srcroot.clone(), &tpath) {
                self.render_import(importer, target, 2, 0, &segs, spec, item);
                return true;
            }
        }
        let mut base = idir.clone();
        let mut parents = 0;
        loop {
            if let Some(segs) = under(&base, &tpath) {
                let prefix = if parents == 0 { 0 } else { 1 };
                self.render_import(importer, target, prefix, parents, &segs, spec, item);
                return true;
            }
            if base.is_empty() {
                return false;
            }
            base = parent_dir(&base);
            parents += 1;
        }
    }

    fn finish(&self) -> Tree {
        let mut files: Vec<(String, String)> = Vec::new();
        if self.marker == 2 {
            files.push(("w/Cargo.toml".into(), "[package]\nname = \"w\"\nversion = \"0.1.0\"\n".into()));
        }
        for m in &self.mods {
            for f in &m.files {
                let mut s = format!("# file: {f}\n");
                if m.poison {
                    s.push_str(&format!("\npoison_{} = = 1\n", m.id));
                    files.push((f.clone(), s));
                    continue;
                }
                for i in &m.imports {
                    s.push_str(i);
                    s.push('\n');
                }
                s.push('\n');
                s.push_str(&module_body(m.id, self.priv_first));
                for u in &m.uses_top {
                    s.push('\n');
                    s.push_str(u);
                }
                if m.is_entry || !m.uses_body.is_empty() {
                    s.push_str(&format!("\ndef {}() -> None:\n", if m.is_entry { "main".to_string() } else { format!("user_{}", m.id) }));
                    if m.uses_body.is_empty() {
                        s.push_str("    println(0)\n");
                    }
                    for u in &m.uses_body {
                        s.push_str(&format!("    {u}\n"));
                    }
                }
                files.push((f.clone(), s));
            }
        }
        Tree { files, entry: self.mods[0].files[0].clone() }
    }

    /// directory of the file that holds the module's imports (for `x/mod.incn` that is `x/`)
    fn importer_dir(&self, m: usize) -> String {
        match self.mods[m].files.first() {
            Some(f) => parent_dir(f),
            None => self.mods[m].dir.clone(),
        }
    }

    /// modules that have a file (can import something)
    fn importers(&self) -> Vec<usize> {
        self.mods.iter().enumerate().filter(|(_, m)| !m.files.is_empty()).map(|(i, _)| i).collect()
    }
}

fn ctx_strategy() -> impl Strategy<Value = Ctx> {
    (0u8..3, proptest::collection::vec(0u8..5, 0..=2)).prop_map(|(marker, entry_dirs)| Ctx { marker, entry_dirs })
}

fn edge_strategy() -> impl Strategy<Value = EdgeSpec> {
    (
        (any::<u16>(), 0u8..8, 1u8..=2, proptest::collection::vec(0u8..5, 0..=2), 0u8..5, 0u8..32),
        (0u8..4, any::<bool>(), any::<bool>(), any::<bool>(), any::<bool>()),
    )
        .prop_map(|((importer, p, up, sub, stem, layout), (st, sep_colon, parent_super, alias, multi))| EdgeSpec {
            importer,
            prefix: match p {
                0..=2 => 0,
                3..=5 => 1,
                _ => 2,
            },
            up,
            sub,
            stem,
            layout,
            stmt_import: st == 3,
            sep_colon,
            parent_super,
            alias,
            multi,
        })
}

fn layout_of(raw: u8) -> &'static str {
    LAYOUTS[LAYOUT_TABLE[raw as usize % 32] as usize]
}

#[derive(Clone, Debug)]
struct RSpec {
    ctx: Ctx,
    edges: Vec<EdgeSpec>,
}

fn build_r(spec: &RSpec, avoid_dotdotdot: bool) -> (Tree, Builder) {
    let mut b = Builder::new(&spec.ctx, avoid_dotdotdot);
    for e in &spec.edges {
        let imps = b.importers();
        let importer = imps[vcore::gen::idx(e.importer, imps.len())];
        b.add_edge(importer, e, layout_of(e.layout), ItemChoice::Default);
    }
    (b.finish(), b)
}

/// P: a chain entry -> (dep ->) target, the target carries a syntax error with a unique marker
#[derive(Clone, Debug)]
struct PSpec {
    ctx: Ctx,
    edges: Vec<EdgeSpec>,
    invoke: u8,
}

fn invoke_of(raw: u8) -> Invoke {
    match raw % 4 {
        0 | 1 => Invoke::Abs,
        2 => Invoke::RelEntryDir,
        _ => Invoke::RelTop,
    }
}

fn build_p(spec: &PSpec, avoid_dotdotdot: bool) -> (Tree, Builder) {
    let mut b = Builder::new(&spec.ctx, avoid_dotdotdot);
    let mut cur = 0usize;
    for e in &spec.edges {
        let layout = if e.layout % 4 == 3 { "mod.incn" } else { "incn" };
        let t = b.add_edge(cur, e, layout, ItemChoice::Default);
        if t == cur || b.mods[t].is_entry {
            break;
        }
        cur = t;
    }
    if cur != 0 {
        b.mods[cur].poison = true;
    }
    (b.finish(), b)
}

/// V: one (kind, statement family, pub/private) cell in a generated context
#[derive(Clone, Debug)]
struct VSpec {
    ctx: Ctx,
    edge: EdgeSpec,
    invoke: u8,
    /// the private/pub reference sits in a dependency instead of the entry (judged on the CLI only)
    transitive: bool,
    via: EdgeSpec,
    /// add a second import whose module has the same path segments but lives elsewhere
    second: bool,
}

#[derive(Clone, Copy, Debug)]
struct VCell {
    kind: Kind,
    /// 0 import, 1 import-as, 2 from, 3 from-as, 4 from-multi
    family: u8,
    public: bool,
}

fn build_v(spec: &VSpec, cell: VCell, avoid_dotdotdot: bool) -> (Tree, Builder) {
    let mut b = Builder::new(&spec.ctx, avoid_dotdotdot);
    let mut e = spec.edge.clone();
    e.stmt_import = cell.family < 2;
    e.alias = cell.family == 1 || cell.family == 3;
    e.multi = cell.family == 4;
    let layout = if e.layout % 8 == 7 { "mod.incn" } else { "incn" };
    if e.layout % 2 == 0 {
        // half of the contexts keep the module next to the base directory (one-segment path)
        e.sub.clear();
    }
    let mut importer = 0usize;
    if spec.transitive {
        let mut via = spec.via.clone();
        via.stmt_import = false;
        via.alias = false;
        via.multi = false;
        let t = b.add_edge(0, &via, "incn", ItemChoice::Default);
        if !b.mods[t].is_entry {
            importer = t;
        }
    }
    b.add_edge(importer, &e, layout, ItemChoice::Specific { kind: cell.kind, public: cell.public });
    if spec.second && !spec.transitive {
        // a second module reached by the same path segments from another base directory (name collision)
        let mut e2 = e.clone();
        e2.prefix = if e.prefix == 1 { 0 } else { 1 };
        e2.stmt_import = false;
        e2.alias = false;
        e2.multi = false;
        b.add_edge(0, &e2, "incn", ItemChoice::Default);
    }
    (b.finish(), b)
}

/// F: cycles and missing modules/items
#[derive(Clone, Debug)]
struct FSpec {
    shape: u8,
    ctx: Ctx,
    a: EdgeSpec,
    b: EdgeSpec,
    c: EdgeSpec,
    invoke: u8,
}
const F_SHAPES: [&str; 10] = ["cycle:self-entry", "cycle:self-dep", "cycle:entry-dep", "cycle:dep-dep", "cycle:3-deps", "cycle:3-with-entry", "missing-module:entry", "missing-module:dep", "missing-item:from", "missing-item:import"];

fn build_f(spec: &FSpec, avoid_dotdotdot: bool) -> (Tree, Builder) {
    let mut b = Builder::new(&spec.ctx, avoid_dotdotdot);
    let file_layout = |e: &EdgeSpec| if e.layout % 4 == 3 { "mod.incn" } else { "incn" };
    let d = ItemChoice::Default;
    match spec.shape % 10 {
        0 => {
            b.link(0, 0, &spec.a, d);
        }
        1 => {
            let a = b.add_edge(0, &spec.a, file_layout(&spec.a), d);
            b.link(a, a, &spec.b, d);
        }
        2 => {
            let a = b.add_edge(0, &spec.a, file_layout(&spec.a), d);
            b.link(a, 0, &spec.b, d);
        }
        3 => {
            let a = b.add_edge(0, &spec.a, file_layout(&spec.a), d);
            let bb = b.add_edge(a, &spec.b, file_layout(&spec.b), d);
            b.link(bb, a, &spec.c, d);
        }
        4 => {
            let a = b.add_edge(0, &spec.a, file_layout(&spec.a), d);
            let bb = b.add_edge(a, &spec.b, file_layout(&spec.b), d);
            let c = b.add_edge(bb, &spec.c, file_layout(&spec.c), d);
            b.link(c, a, &spec.a, d);
        }
        5 => {
            let a = b.add_edge(0, &spec.a, file_layout(&spec.a), d);
            let bb = b.add_edge(a, &spec.b, file_layout(&spec.b), d);
            b.link(bb, 0, &spec.c, d);
        }
        6 => {
            b.add_edge(0, &spec.a, "missing", d);
        }
        7 => {
            let a = b.add_edge(0, &spec.a, file_layout(&spec.a), d);
            b.add_edge(a, &spec.b, "missing", d);
        }
        8 => {
            let mut e = spec.a.clone();
            e.stmt_import = false;
            b.add_edge(0, &e, file_layout(&e), ItemChoice::MissingItem);
        }
        _ => {
            let mut e = spec.a.clone();
            e.stmt_import = true;
            b.add_edge(0, &e, file_layout(&e), ItemChoice::MissingItem);
        }
    }
    (b.finish(), b)
}

// =====================================================================================================
// Driver
// =====================================================================================================

#[derive(Clone, Copy, Debug, PartialEq, Eq)]
enum Pop {
    R,
    P,
    V,
    F,
}

fn replay_body(pop: Pop, tree: &Tree, invoke: Invoke, key: &str, what: &str) -> String {
    serde_json::to_string_pretty(&json!({
        "pop": format!("{pop:?}"),
        "invoke": invoke.name(),
        "signature": key,
        "what": what,
        "tree": tree.to_json(),
    }))
    .unwrap()
}

/// Judge a tree with every leg that applies to it.
fn judge_all(top: &Path, pop: Pop, tree: &Tree, invoke: Invoke, known: &KnownSet, strict: bool, slow: bool) -> Judged {
    tree.materialise(top);
    let mut j = Judged::default();
    let poisoned = tree.files.iter().any(|(_, c)| c.contains("poison_"));
    if pop == Pop::R && !poisoned {
        j.merge(judge_resolution(top, tree, known, strict));
    }
    if pop != Pop::R || poisoned {
        let (ct, lt) = if slow { (ALONE_TIMEOUT, ALONE_TIMEOUT) } else { (CLI_TIMEOUT, LSP_TIMEOUT) };
        j.merge(judge_verdict(top, tree, invoke, known, strict, ct, lt));
    }
    j
}

fn class_of(key: &str) -> String {
    let mut it = key.splitn(3, ':');
    format!("{}:{}", it.next().unwrap_or(""), it.next().unwrap_or(""))
}

fn tree_sample(tree: &Tree) -> Value {
    let model = ref_model(tree);
    let imports: Vec<Value> = model
        .edges
        .iter()
        .map(|e| json!({"in": e.from, "import": e.imp.text, "reference": format!("{:?}", e.target)}))
        .collect();
    json!({"entry": tree.entry, "files": tree.files.iter().map(|(p, _)| p.clone()).collect::<Vec<_>>(), "imports": imports})
}

fn nontrivial(tree: &Tree, model: &RefModel) -> bool {
    model.edges.iter().any(|e| {
        e.imp.parents > 0
            || e.imp.absolute
            || e.imp.module_segs().len() > 1
            || e.from != tree.entry
            || matches!(&e.target, Target::File(t) | Target::Undoc(t) if t.contains("/mod."))
            || matches!(&e.target, Target::Ambiguous(_))
    })
}

struct Run<'a> {
    farm: &'a vf::Farm,
    known: KnownSet,
    out: Outcome,
    ev: Evidence,
    made: BTreeMap<String, u64>,
    hangs: Vec<(Pop, Tree, Invoke, Fail)>,
}

impl<'a> Run<'a> {
    fn eval(&self, pop: Pop, tree: &Tree, invoke: Invoke) -> Judged {
        let top = self.farm.case_dir();
        let top = top.canonicalize().unwrap_or(top);
        let j = judge_all(&top, pop, tree, invoke, &self.known, false, false);
        let _ = std::fs::remove_dir_all(&top);
        j
    }

    fn account(&mut self, tree: &Tree, j: &Judged) {
        let model = ref_model(tree);
        let nt = nontrivial(tree, &model);
        self.ev.case(if nt { Some(tree.hash()) } else { None });
        for k in &j.excluded {
            self.ev.exclude(k);
        }
        for m in &j.made {
            *self.made.entry(m.to_string()).or_insert(0) += 1;
        }
        for e in &model.edges {
            self.ev.class(&format!("prefix:{}", if e.imp.absolute { "crate" } else if e.imp.parents > 0 { "parent" } else { "plain" }));
            self.ev.class(&format!("importer:{}", if e.from == tree.entry { "entry" } else if parent_dir(&e.from) == parent_dir(&tree.entry) { "dep-same-dir" } else { "dep-other-dir" }));
            self.ev.class(&format!("layout:{}", layout_name(tree, &e.from, &e.imp, &e.target)));
            self.ev.class(&format!(
                "reference:{}",
                match &e.target {
                    Target::File(_) => "file".to_string(),
                    Target::Undoc(_) => "undocumented-extension".to_string(),
                    Target::Ambiguous(_) => "ambiguous".to_string(),
                    Target::Missing => "missing".to_string(),
                    Target::Unspecified(r) => format!("unspecified:{r}"),
                }
            ));
        }
        if model.has_cycle {
            self.ev.class("graph:cycle");
        }
        for t in &j.trouble {
            self.out.inconclusive(t);
        }
    }

    /// Is it worth shrinking this failure (false when it is a duplicate of something already reported)?
    fn fresh(&self, f: &Fail) -> bool {
        if f.hang || self.out.violations.len() >= self.out.max_reports {
            return false;
        }
        let Some((leg, class, feats)) = split_key(&f.key) else { return true };
        !self.out.violations.iter().any(|(k, _)| match split_key(k) {
            Some((l, c, fs)) => l == leg && c == class && fs.is_subset(&feats),
            None => false,
        })
    }

    /// Report a failure (already shrunk).
    fn report(&mut self, pop: Pop, tree: &Tree, invoke: Invoke, f: &Fail) {
        if f.hang {
            self.hangs.push((pop, tree.clone(), invoke, f.clone()));
            return;
        }
        if self.out.seen(&f.key) || !self.fresh(f) {
            self.ev.violations += 1;
            return;
        }
        let body = replay_body(pop, tree, invoke, &f.key, &f.what);
        let mut desc = format!("{}\nentry {} (invoked {})\n", f.what, tree.entry, invoke.name());
        for (p, c) in &tree.files {
            let imports: Vec<&str> = c.lines().filter(|l| l.starts_with("import ") || l.starts_with("from ")).collect();
            desc.push_str(&format!("  {p}{}\n", if imports.is_empty() { String::new() } else { format!("   [{}]", imports.join(" ; ")) }));
        }
        self.out.violation(&mut self.ev, &f.key, "json", &body, &desc);
    }
}

fn load_replay(path: &Path) -> Option<(Pop, Tree, Invoke)> {
    let text = std::fs::read_to_string(path).ok()?;
    let v: Value = serde_json::from_str(&text).ok()?;
    let tree = Tree::from_json(v.get("tree")?)?;
    let pop = match v.get("pop").and_then(|p| p.as_str()).unwrap_or("V") {
        "R" => Pop::R,
        "P" => Pop::P,
        "F" => Pop::F,
        _ => Pop::V,
    };
    let invoke = Invoke::parse(v.get("invoke").and_then(|p| p.as_str()).unwrap_or("abs"));
    Some((pop, tree, invoke))
}

fn main() {
    let args = Args::parse(PROP);
    util::install_quiet_panic_hook();
    let out = Outcome::new(PROP);
    let mut ev = Evidence::new(
        &args,
        "a case is one generated project tree (plus, for the CLI legs, an invocation style). Non-trivial: some import crosses a \
         directory boundary, uses a parent/crate prefix, targets a mod file or an ambiguous layout, or sits in a non-entry \
         module (transitive). Distinct = hash of (all file paths and contents, entry).",
    );
    ev.assume("docs transcription: `import m::item` — last segment is the item; `from m import ..` — all segments are the module; `..`/`super::` = one directory up per level from the importing file, `...` = two; `crate` = nearest ancestor with Cargo.toml or src/ (src/ if present); module `a.b` = a/b.incn or a/b/mod.incn");
    ev.assume("layouts the docs do not decide (only a `.incan` candidate, several candidates, bare `import m`, un-prefixed path inside a module of another directory, root with both Cargo.toml and src/) are judged on CLI/LSP agreement only");
    ev.assume("the language server is driven in-process exactly as src/bin/lsp.rs wires it (LspService + Server) over an in-memory duplex; the files it loads are read off its publishDiagnostics notifications");
    ev.assume("a watchdog only yields a hang candidate; it is re-run alone with a 180 s limit before it counts");
    let known = KnownSet::from_outcome(&out);
    let tag = format!("c14-{}-{}", args.tier.name(), args.seed);
    let farm = vf::Farm::new(&tag);
    let mut run = Run { farm: &farm, known, out, ev, made: BTreeMap::new(), hangs: Vec::new() };
    if let Some(n) = std::env::var("C14_MAX_REPORTS").ok().and_then(|s| s.parse().ok()) {
        run.out.max_reports = n;
    }

    // self-check: no ancestor of the scratch area may look like a project root
    {
        let mut d = farm.work.canonicalize().unwrap_or(farm.work.clone());
        loop {
            if d.join("Cargo.toml").exists() || d.join("src").exists() {
                run.out.inconclusive(&format!("scratch ancestor {} has Cargo.toml or src/: crate-rooted imports would escape the generated tree", d.display()));
                std::process::exit(run.out.finish(&run.ev));
            }
            if !d.pop() {
                break;
            }
        }
    }

    // ---- replay
    if let Some(path) = &args.replay {
        let Some((pop, tree, invoke)) = load_replay(path) else {
            run.out.inconclusive("replay file is not a C14 tree description");
            std::process::exit(run.out.finish(&run.ev));
        };
        let top = farm.case_dir();
        let top = top.canonicalize().unwrap_or(top);
        // strict: every leg, no known-finding exclusions; R-trees get the verdict legs too
        let mut j = judge_all(&top, pop, &tree, invoke, &run.known, true, true);
        if pop == Pop::R {
            j.merge(judge_verdict(&top, &tree, invoke, &run.known, true, ALONE_TIMEOUT, ALONE_TIMEOUT));
        } else if !tree.files.iter().any(|(_, c)| c.contains("poison_")) {
            j.merge(judge_resolution(&top, &tree, &run.known, true));
        }
        let _ = std::fs::remove_dir_all(&top);
        run.account(&tree, &j);
        run.ev.sample(tree_sample(&tree));
        let mut seen = BTreeSet::new();
        for f in &j.fails {
            if seen.insert(f.key.clone()) {
                let mut f = f.clone();
                f.hang = false;
                run.report(pop, &tree, invoke, &f);
            }
        }
        let _ = std::fs::remove_dir_all(&farm.work);
        run.ev.set("judgements_made", json!(run.made));
        std::process::exit(run.out.finish(&run.ev));
    }

    // ---- known findings: replay the canonical inputs
    let known_entries: Vec<(String, PathBuf)> = run.out.known.open.iter().map(|e| (e.key.clone(), e.replay.clone())).collect();
    for (key, path) in &known_entries {
        match load_replay(path) {
            Some((pop, tree, invoke)) => {
                let top = farm.case_dir();
                let top = top.canonicalize().unwrap_or(top);
                let mut j = judge_all(&top, pop, &tree, invoke, &run.known, true, false);
                if pop == Pop::R {
                    j.merge(judge_verdict(&top, &tree, invoke, &run.known, true, CLI_TIMEOUT, LSP_TIMEOUT));
                }
                let _ = std::fs::remove_dir_all(&top);
                let still = j.fails.iter().any(|f| &f.key == key);
                run.out.known_replayed(key, still);
            }
            None => run.out.inconclusive(&format!("known finding {key}: canonical input {} unreadable", path.display())),
        }
    }
    let avoid_ddd = run.known.has_key("parse:reject:spelling=dotdotdot");

    // development aid: C14_ONLY=RPVF restricts the populations that are run (default: all)
    let only = std::env::var("C14_ONLY").unwrap_or_default();
    let want = |c: char| only.is_empty() || only.contains(c);

    // ---- population R: in-process resolution
    let n_r = args.tier.pick(2000usize, 60_000usize);
    if want('R') {
        let strat = (ctx_strategy(), proptest::collection::vec(edge_strategy(), 1..=4)).prop_map(|(ctx, edges)| RSpec { ctx, edges });
        let mut runner = vcore::gen::runner(args.subseed(1));
        let mut trees = vcore::gen::batch(&strat, &mut runner, n_r);
        let specs: Vec<RSpec> = trees.iter().map(|t| t.current()).collect();
        let built: Vec<(Tree, Vec<String>, u64)> = specs
            .iter()
            .map(|s| {
                let (t, b) = build_r(s, avoid_ddd);
                (t, b.classes, b.avoided_dotdotdot)
            })
            .collect();
        let judged: Vec<Judged> = farm.par_map(&built, |(t, _, _)| run.eval(Pop::R, t, Invoke::Abs));
        for (i, j) in judged.iter().enumerate() {
            let (tree, classes, avoided) = &built[i];
            run.account(tree, j);
            for c in classes {
                run.ev.class(c);
            }
            if *avoided > 0 {
                run.ev.exclude_n("parse:reject:spelling=dotdotdot", *avoided);
            }
            if i % (n_r / 3).max(1) == 2 {
                run.ev.sample(json!({"population": "R", "tree": tree_sample(tree)}));
            }
            let mut done: BTreeSet<String> = BTreeSet::new();
            for f in &j.fails {
                let cls = class_of(&f.key);
                if !done.insert(cls.clone()) {
                    continue;
                }
                if !run.fresh(f) {
                    run.report(Pop::R, tree, Invoke::Abs, f);
                    continue;
                }
                let small = vcore::gen::shrink(&mut trees[i], 120, |s: &RSpec| {
                    let (t, _) = build_r(s, avoid_ddd);
                    run.eval(Pop::R, &t, Invoke::Abs).fails.iter().any(|g| class_of(&g.key) == cls)
                });
                let (t, _) = build_r(&small, avoid_ddd);
                let j2 = run.eval(Pop::R, &t, Invoke::Abs);
                match j2.fails.iter().find(|g| class_of(&g.key) == cls) {
                    Some(g) => run.report(Pop::R, &t, Invoke::Abs, g),
                    None => run.report(Pop::R, tree, Invoke::Abs, f),
                }
            }
        }
        run.ev.class_n("population:R", n_r as u64);
    }

    // ---- population P: real CLI resolution via poisoned targets
    let n_p = args.tier.pick(40usize, 1500usize);
    if want('P') {
        let strat = (0u8..4, ctx_strategy(), proptest::collection::vec(edge_strategy(), 1..=2)).prop_map(|(invoke, ctx, edges)| PSpec { ctx, edges, invoke });
        let mut runner = vcore::gen::runner(args.subseed(2));
        let mut trees = vcore::gen::batch(&strat, &mut runner, n_p);
        let specs: Vec<PSpec> = trees.iter().map(|t| t.current()).collect();
        let built: Vec<(Tree, Invoke, Vec<String>, u64)> = specs
            .iter()
            .map(|s| {
                let (t, b) = build_p(s, avoid_ddd);
                (t, invoke_of(s.invoke), b.classes, b.avoided_dotdotdot)
            })
            .collect();
        let judged: Vec<Judged> = farm.par_map(&built, |(t, inv, _, _)| run.eval(Pop::P, t, *inv));
        for (i, j) in judged.iter().enumerate() {
            let (tree, inv, classes, avoided) = &built[i];
            run.account(tree, j);
            run.ev.class(&format!("invoke:{}", inv.name()));
            for c in classes {
                run.ev.class(c);
            }
            if *avoided > 0 {
                run.ev.exclude_n("parse:reject:spelling=dotdotdot", *avoided);
            }
            if i == 1 {
                run.ev.sample(json!({"population": "P", "invoke": inv.name(), "tree": tree_sample(tree)}));
            }
            let mut done: BTreeSet<String> = BTreeSet::new();
            for f in &j.fails {
                let cls = class_of(&f.key);
                if !done.insert(cls.clone()) {
                    continue;
                }
                if !run.fresh(f) {
                    run.report(Pop::P, tree, *inv, f);
                    continue;
                }
                let small = vcore::gen::shrink(&mut trees[i], 60, |s: &PSpec| {
                    let (t, _) = build_p(s, avoid_ddd);
                    run.eval(Pop::P, &t, invoke_of(s.invoke)).fails.iter().any(|g| class_of(&g.key) == cls)
                });
                let (t, _) = build_p(&small, avoid_ddd);
                let inv2 = invoke_of(small.invoke);
                let j2 = run.eval(Pop::P, &t, inv2);
                match j2.fails.iter().find(|g| class_of(&g.key) == cls) {
                    Some(g) => run.report(Pop::P, &t, inv2, g),
                    None => run.report(Pop::P, tree, *inv, f),
                }
            }
        }
        run.ev.class_n("population:P", n_p as u64);
    }

    // ---- population V: (kind x statement family x pub/private) exhaustively, in generated contexts
    let contexts_per_cell = args.tier.pick(1usize, 30usize);
    if want('V') {
        let mut cells: Vec<VCell> = Vec::new();
        // `from` families get twice the contexts of the Rust-style families
        for rep in 0..2 * contexts_per_cell {
            for kind in KINDS {
                for family in 0u8..5 {
                    if family < 2 && rep % 2 == 1 {
                        continue;
                    }
                    for public in [false, true] {
                        cells.push(VCell { kind, family, public });
                    }
                }
            }
        }
        let strat = (0u8..4, 0u8..6, ctx_strategy(), edge_strategy(), edge_strategy()).prop_map(|(invoke, tr, ctx, edge, via)| VSpec { ctx, edge, invoke, transitive: tr == 5, via, second: tr == 4 });
        let mut runner = vcore::gen::runner(args.subseed(3));
        let n_v = cells.len();
        let mut trees = vcore::gen::batch(&strat, &mut runner, n_v);
        let specs: Vec<VSpec> = trees.iter().map(|t| t.current()).collect();
        let built: Vec<(Tree, Invoke, VCell, Vec<String>, u64)> = specs
            .iter()
            .enumerate()
            .map(|(i, s)| {
                let cell = cells[i % cells.len()];
                let (t, b) = build_v(s, cell, avoid_ddd);
                (t, invoke_of(s.invoke), cell, b.classes, b.avoided_dotdotdot)
            })
            .collect();
        let judged: Vec<Judged> = farm.par_map(&built, |(t, inv, _, _, _)| run.eval(Pop::V, t, *inv));
        for (i, j) in judged.iter().enumerate() {
            let (tree, inv, cell, classes, avoided) = &built[i];
            run.account(tree, j);
            run.ev.class(&format!("invoke:{}", inv.name()));
            run.ev.class(&format!("vis:kind={}", cell.kind.name()));
            run.ev.class(&format!("vis:family={}", ["import", "import-as", "from", "from-as", "from-multi"][cell.family as usize]));
            run.ev.class(if cell.public { "vis:pub" } else { "vis:private" });
            if specs[i].transitive {
                run.ev.class("vis:transitive");
            }
            if specs[i].second && !specs[i].transitive {
                run.ev.class("vis:second-import-same-name");
            }
            for c in classes {
                run.ev.class(c);
            }
            if *avoided > 0 {
                run.ev.exclude_n("parse:reject:spelling=dotdotdot", *avoided);
            }
            if i == 3 || i == 24 {
                run.ev.sample(json!({"population": "V", "invoke": inv.name(), "cell": format!("{cell:?}"), "entry_source": tree.get(&tree.entry), "tree": tree_sample(tree)}));
            }
            let mut done: BTreeSet<String> = BTreeSet::new();
            for f in &j.fails {
                let cls = class_of(&f.key);
                if !done.insert(cls.clone()) {
                    continue;
                }
                if !run.fresh(f) {
                    run.report(Pop::V, tree, *inv, f);
                    continue;
                }
                let cell = *cell;
                let small = vcore::gen::shrink(&mut trees[i], 60, |s: &VSpec| {
                    let (t, _) = build_v(s, cell, avoid_ddd);
                    run.eval(Pop::V, &t, invoke_of(s.invoke)).fails.iter().any(|g| class_of(&g.key) == cls)
                });
                // simplify the cell as well (function kind, no alias / second item) when the failure survives it
                let mut cell = cell;
                let base_family = if cell.family < 2 { 0 } else { 2 };
                for cand in [
                    VCell { kind: Kind::Function, family: base_family, public: cell.public },
                    VCell { kind: Kind::Function, family: cell.family, public: cell.public },
                    VCell { kind: cell.kind, family: base_family, public: cell.public },
                ] {
                    if cand.kind == cell.kind && cand.family == cell.family {
                        continue;
                    }
                    let (t, _) = build_v(&small, cand, avoid_ddd);
                    if run.eval(Pop::V, &t, invoke_of(small.invoke)).fails.iter().any(|g| class_of(&g.key) == cls) {
                        cell = cand;
                        break;
                    }
                }
                let (t, _) = build_v(&small, cell, avoid_ddd);
                let inv2 = invoke_of(small.invoke);
                let j2 = run.eval(Pop::V, &t, inv2);
                match j2.fails.iter().find(|g| class_of(&g.key) == cls) {
                    Some(g) => run.report(Pop::V, &t, inv2, g),
                    None => run.report(Pop::V, tree, *inv, f),
                }
            }
        }
        run.ev.class_n("population:V", n_v as u64);
    }

    // ---- population F: cycles, missing modules, missing items
    let n_f = args.tier.pick(30usize, 1200usize);
    if want('F') {
        let strat = (0u8..4, 0u8..10, ctx_strategy(), edge_strategy(), edge_strategy(), edge_strategy()).prop_map(|(invoke, shape, ctx, a, b, c)| FSpec { shape, ctx, a, b, c, invoke });
        let mut runner = vcore::gen::runner(args.subseed(4));
        let mut trees = vcore::gen::batch(&strat, &mut runner, n_f);
        let mut specs: Vec<FSpec> = trees.iter().map(|t| t.current()).collect();
        // every shape is present: case i has shape i mod 10 (the rest of the spec is generated)
        for (i, s) in specs.iter_mut().enumerate() {
            s.shape = (i % 10) as u8;
        }
        let built: Vec<(Tree, Invoke, Vec<String>, u64)> = specs
            .iter()
            .map(|s| {
                let (t, b) = build_f(s, avoid_ddd);
                (t, invoke_of(s.invoke), b.classes, b.avoided_dotdotdot)
            })
            .collect();
        let judged: Vec<Judged> = farm.par_map(&built, |(t, inv, _, _)| run.eval(Pop::F, t, *inv));
        for (i, j) in judged.iter().enumerate() {
            let (tree, inv, classes, avoided) = &built[i];
            run.account(tree, j);
            run.ev.class(&format!("invoke:{}", inv.name()));
            run.ev.class(&format!("shape:{}", F_SHAPES[specs[i].shape as usize % 10]));
            for c in classes {
                run.ev.class(c);
            }
            if *avoided > 0 {
                run.ev.exclude_n("parse:reject:spelling=dotdotdot", *avoided);
            }
            if i == 3 || i == 6 {
                run.ev.sample(json!({"population": "F", "shape": F_SHAPES[specs[i].shape as usize % 10], "invoke": inv.name(), "tree": tree_sample(tree)}));
            }
            let shape = specs[i].shape;
            let mut done: BTreeSet<String> = BTreeSet::new();
            for f in &j.fails {
                let cls = class_of(&f.key);
                if !done.insert(cls.clone()) {
                    continue;
                }
                if !run.fresh(f) {
                    run.report(Pop::F, tree, *inv, f);
                    continue;
                }
                let small = vcore::gen::shrink(&mut trees[i], 60, |s: &FSpec| {
                    let mut s = s.clone();
                    s.shape = shape;
                    let (t, _) = build_f(&s, avoid_ddd);
                    run.eval(Pop::F, &t, invoke_of(s.invoke)).fails.iter().any(|g| class_of(&g.key) == cls)
                });
                let mut small = small;
                small.shape = shape;
                let (t, _) = build_f(&small, avoid_ddd);
                let inv2 = invoke_of(small.invoke);
                let j2 = run.eval(Pop::F, &t, inv2);
                match j2.fails.iter().find(|g| class_of(&g.key) == cls) {
                    Some(g) => run.report(Pop::F, &t, inv2, g),
                    None => run.report(Pop::F, tree, *inv, f),
                }
            }
        }
        run.ev.class_n("population:F", n_f as u64);
    }

    // ---- hang candidates: confirm alone, generous limit
    let hangs = std::mem::take(&mut run.hangs);
    for (pop, tree, invoke, f) in hangs {
        let top = farm.case_dir();
        let top = top.canonicalize().unwrap_or(top);
        let j = judge_all(&top, pop, &tree, invoke, &run.known, false, true);
        let _ = std::fs::remove_dir_all(&top);
        if let Some(g) = j.fails.iter().find(|g| g.hang && g.key == f.key) {
            let mut g = g.clone();
            g.hang = false;
            g.what = format!("{} (confirmed alone, limit {} s)", g.what, ALONE_TIMEOUT.as_secs());
            run.report(pop, &tree, invoke, &g);
        } else {
            run.ev.discard("watchdog-under-load-not-confirmed-alone");
        }
    }

    let _ = std::fs::remove_dir_all(&farm.work);
    run.ev.set("judgements_made", json!(run.made));
    run.ev.set("known_feature_sets", json!(run.known.entries.iter().map(|e| e.3.clone()).collect::<Vec<_>>()));
    std::process::exit(run.out.finish(&run.ev));
}
