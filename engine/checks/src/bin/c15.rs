//! C15 — the generated Cargo project declares exactly what the code needs, pinned.
//!
//! Generator: programs that switch each feature trigger on in each syntactic context, in the entry module or in a
//! dependency module, `rust::` imports of every known-good crate in every import form, unknown crate names, and
//! project (file-stem) names drawn from legal identifiers. Everything goes through the real CLI (`incan build`
//! with a stub `cargo` first on PATH, so the Rust project is written but not compiled).
//!
//! Oracle (per generated project):
//!   * unknown `rust::` crate  => `incan build` exits non-zero and names the crate (docs: rust_interop.md "Strict
//!     Dependency Policy"; statement: "refused, never silently added as `*`");
//!   * otherwise the manifest is read with a small reader for the fixed shape the generator writes and
//!       - `[package].name == [[bin]].name == file stem`, `[[bin]].path` exists in the output,
//!       - every `[dependencies]` entry has a non-empty `version` or `path` and is never `*`,
//!       - U ⊆ D: every external crate root the generated `src/**/*.rs` refers to (roots of `use` trees, lower-case
//!         path roots, attribute paths; minus std/core/alloc/crate/self/super, primitive types, tool attributes,
//!         local modules and names brought in by `use`) is declared,
//!       - D ⊆ allowed: a declared crate is a runtime crate (incan_stdlib, incan_derive — always declared, exempt),
//!         a crate the code refers to, a `rust::` import of the sources, or a crate of a feature the program
//!         switches on by construction (json: serde+serde_json, async: tokio, web: axum+tokio+serde+serde_json);
//!       - `cargo metadata --offline --no-deps` accepts the manifest (also the arbiter when the reader gives up);
//!   * a small sample is really built (`Mode::Build`); a build that fails on the manifest or with an
//!     undeclared-crate error (E0432/E0433/E0463) is a violation, any other build failure is not C15's business
//!     and is counted as a discard.

use proptest::prelude::*;
use proptest::strategy::ValueTree;
use serde_json::{json, Value};
use std::collections::{BTreeMap, BTreeSet};
use std::path::{Path, PathBuf};
use std::process::Command;
use std::sync::Mutex;
use std::time::Duration;
use vcore::cargoproj;
use vcore::farm::{self, CmdOut, Farm, Mode, Project};
use vcore::{util, Args, Evidence, Outcome};

const KNOWN_GOOD: [&str; 19] = [
    "serde", "serde_json", "tokio", "time", "chrono", "reqwest", "uuid", "rand", "regex", "anyhow", "thiserror", "tracing",
    "clap", "log", "env_logger", "sqlx", "futures", "bytes", "itertools",
];
const RUNTIME: [&str; 2] = ["incan_stdlib", "incan_derive"];
/// binary target names Cargo itself forbids (they collide with its build directories): outside "legal project names"
const CARGO_RESERVED: [&str; 4] = ["deps", "build", "examples", "incremental"];

// ---------------------------------------------------------------------------------------------------------
// Triggers and contexts
// ---------------------------------------------------------------------------------------------------------

#[derive(Clone, Copy, Debug, PartialEq, Eq, PartialOrd, Ord, Hash)]
enum Feature {
    Json,
    Async,
    Web,
}

impl Feature {
    fn name(self) -> &'static str {
        match self {
            Feature::Json => "json",
            Feature::Async => "async",
            Feature::Web => "web",
        }
    }
    fn crates(self) -> &'static [&'static str] {
        match self {
            Feature::Json => &["serde", "serde_json"],
            Feature::Async => &["tokio"],
            Feature::Web => &["axum", "tokio", "serde", "serde_json"],
        }
    }
}

struct ExprTrigger {
    name: &'static str,
    expr: &'static str,
    is_str: bool,
    feature: Feature,
    /// extra top-level declarations the expression needs (no trigger of their own)
    prelude: &'static str,
}

const EXPR_TRIGGERS: [ExprTrigger; 5] = [
    ExprTrigger { name: "json_stringify", expr: "json_stringify(1)", is_str: true, feature: Feature::Json, prelude: "" },
    ExprTrigger { name: "sleep", expr: "sleep(0.1)", is_str: false, feature: Feature::Async, prelude: "" },
    ExprTrigger { name: "sleep_ms", expr: "sleep_ms(5)", is_str: false, feature: Feature::Async, prelude: "" },
    ExprTrigger { name: "yield_now", expr: "yield_now()", is_str: false, feature: Feature::Async, prelude: "" },
    ExprTrigger {
        name: "spawn_blocking",
        expr: "spawn_blocking(heavy)",
        is_str: false,
        feature: Feature::Async,
        prelude: "def heavy() -> int:\n    return 1\n\n",
    },
];

/// (context name, context class used in signatures, needs a str-typed trigger)
const CONTEXTS: [(&str, &str, bool); 50] = [
    ("stmt", "fn-body", false),
    ("assign", "fn-body", false),
    ("let_assign", "fn-body", false),
    ("return_value", "fn-body", true),
    ("if_then", "nested-block", false),
    ("if_else", "nested-block", false),
    ("else_after_elif", "nested-block", false),
    ("while_body", "nested-block", false),
    ("for_body", "nested-block", false),
    ("nested_if_in_for", "nested-block", false),
    ("elif_body", "elif", false),
    ("elif_cond", "elif", true),
    ("if_cond", "stmt-head", true),
    ("for_iter", "stmt-head", true),
    ("match_arm_block", "match", false),
    ("match_arm_expr", "match", false),
    ("match_guard", "match", true),
    ("match_scrutinee", "match", true),
    ("model_method", "method", false),
    ("class_method", "method", false),
    ("trait_default_method", "trait-or-newtype-method", false),
    ("newtype_method", "trait-or-newtype-method", false),
    ("list_comp_expr", "comprehension", false),
    ("list_comp_filter", "comprehension", true),
    ("list_comp_iter", "comprehension", true),
    ("dict_comp_value", "comprehension", false),
    ("field_default", "field-default", true),
    ("closure_body", "closure", false),
    ("fstring", "fstring", true),
    ("call_arg", "call", true),
    ("method_call_arg", "call", true),
    ("method_receiver", "call", true),
    ("ctor_arg", "call", true),
    ("binary_operand", "operator", true),
    ("unary_operand", "operator", true),
    ("paren", "operator", false),
    ("list_literal", "collection-literal", false),
    ("dict_literal_value", "collection-literal", false),
    ("tuple_literal", "collection-literal", false),
    ("set_literal", "collection-literal", true),
    ("index_expr", "index", true),
    ("slice_bound", "index", true),
    ("field_assign", "assign-form", true),
    ("index_assign", "assign-form", true),
    ("compound_assign", "assign-form", true),
    ("tuple_unpack", "assign-form", false),
    ("chained_assign", "chained-assign", false),
    ("nested_call_arg", "call", true),
    ("while_in_if", "nested-block", false),
    ("match_in_for", "match", false),
];

/// One top-level fragment: declarations (all `pub`), the symbol a dependent module imports, a statement that uses it.
struct Frag {
    decls: String,
    sym: String,
    call: String,
}

fn func(k: usize, body: &str) -> Frag {
    Frag { decls: format!("pub def f{k}(x: int) -> None:\n{body}\n"), sym: format!("f{k}"), call: format!("f{k}(1)") }
}

/// Render expression `e` in context `ctx` (index into CONTEXTS) with unique suffix `k`.
fn render_ctx(ctx: usize, e: &str, k: usize) -> Frag {
    let name = CONTEXTS[ctx].0;
    match name {
        "stmt" => func(k, &format!("    {e}\n")),
        "assign" => func(k, &format!("    v = {e}\n")),
        "let_assign" => func(k, &format!("    let v = {e}\n")),
        "return_value" => Frag {
            decls: format!("pub def f{k}() -> str:\n    return {e}\n\n"),
            sym: format!("f{k}"),
            call: format!("println(f{k}())"),
        },
        "if_then" => func(k, &format!("    if x == 1:\n        v = {e}\n")),
        "if_else" => func(k, &format!("    if x == 1:\n        pass\n    else:\n        v = {e}\n")),
        "else_after_elif" => func(k, &format!("    if x == 1:\n        pass\n    elif x == 2:\n        pass\n    else:\n        v = {e}\n")),
        "while_body" => func(k, &format!("    mut i = 0\n    while i < 1:\n        v = {e}\n        i += 1\n")),
        "for_body" => func(k, &format!("    for i in range(2):\n        v = {e}\n")),
        "nested_if_in_for" => func(k, &format!("    for i in range(2):\n        if i == 1:\n            v = {e}\n")),
        "while_in_if" => func(k, &format!("    if x == 1:\n        mut i = 0\n        while i < 1:\n            v = {e}\n            i += 1\n")),
        "elif_body" => func(k, &format!("    if x == 1:\n        pass\n    elif x == 2:\n        v = {e}\n")),
        "elif_cond" => func(k, &format!("    if x == 1:\n        pass\n    elif len({e}) > 0:\n        pass\n")),
        "if_cond" => func(k, &format!("    if len({e}) > 0:\n        pass\n")),
        "for_iter" => func(k, &format!("    for i in range(len({e})):\n        pass\n")),
        "match_arm_block" => func(k, &format!("    match x:\n        case 1:\n            v = {e}\n        case _:\n            pass\n")),
        "match_arm_expr" => func(k, &format!("    match x:\n        1 => {e}\n        _ => pass\n")),
        "match_guard" => func(k, &format!("    match x:\n        case n if len({e}) > 0:\n            pass\n        case _:\n            pass\n")),
        "match_scrutinee" => func(k, &format!("    match len({e}):\n        case 1:\n            pass\n        case _:\n            pass\n")),
        "match_in_for" => func(k, &format!("    for i in range(2):\n        match i:\n            case 1:\n                v = {e}\n            case _:\n                pass\n")),
        "model_method" => Frag {
            decls: format!("pub model M{k}:\n    a: int\n\n    def m(self) -> None:\n        v = {e}\n\n"),
            sym: format!("M{k}"),
            call: format!("M{k}(a=1).m()"),
        },
        "class_method" => Frag {
            decls: format!("pub class M{k}:\n    a: int\n\n    def m(self) -> None:\n        v = {e}\n\n"),
            sym: format!("M{k}"),
            call: format!("M{k}(a=1).m()"),
        },
        "trait_default_method" => Frag {
            decls: format!("pub trait T{k}:\n    def m(self) -> None:\n        v = {e}\n\npub class M{k} with T{k}:\n    a: int\n\n"),
            sym: format!("M{k}"),
            call: format!("M{k}(a=1).m()"),
        },
        "newtype_method" => Frag {
            decls: format!("pub type Id{k} = newtype int:\n    def m(self) -> None:\n        v = {e}\n\n"),
            sym: format!("Id{k}"),
            call: format!("Id{k}(1).m()"),
        },
        "list_comp_expr" => func(k, &format!("    vs = [{e} for i in range(2)]\n")),
        "list_comp_filter" => func(k, &format!("    vs = [i for i in range(2) if len({e}) > 0]\n")),
        "list_comp_iter" => func(k, &format!("    vs = [i for i in range(len({e}))]\n")),
        "dict_comp_value" => func(k, &format!("    vs = {{i: {e} for i in range(2)}}\n")),
        "field_default" => Frag {
            decls: format!("pub model M{k}:\n    a: str = {e}\n\n"),
            sym: format!("M{k}"),
            call: format!("println(M{k}().a)"),
        },
        "closure_body" => func(k, &format!("    g = () => {e}\n")),
        "fstring" => func(k, &format!("    v = f\"a{{{e}}}b\"\n")),
        "call_arg" => func(k, &format!("    println({e})\n")),
        "nested_call_arg" => func(k, &format!("    println(len({e}.upper()))\n")),
        "method_call_arg" => func(k, &format!("    mut xs: List[str] = []\n    xs.append({e})\n")),
        "method_receiver" => func(k, &format!("    v = {e}.upper()\n")),
        "ctor_arg" => Frag {
            decls: format!("pub model P{k}:\n    a: str\n\npub def f{k}(x: int) -> None:\n    m = P{k}(a={e})\n\n"),
            sym: format!("f{k}"),
            call: format!("f{k}(1)"),
        },
        "binary_operand" => func(k, &format!("    v = {e} + \"x\"\n")),
        "unary_operand" => func(k, &format!("    v = not (len({e}) > 0)\n")),
        "paren" => func(k, &format!("    v = ({e})\n")),
        "list_literal" => func(k, &format!("    vs = [{e}]\n")),
        "dict_literal_value" => func(k, &format!("    vs = {{1: {e}}}\n")),
        "tuple_literal" => func(k, &format!("    vs = ({e}, 1)\n")),
        "set_literal" => func(k, &format!("    vs = {{{e}}}\n")),
        "index_expr" => func(k, &format!("    v = [1, 2][len({e}) - 9]\n")),
        "slice_bound" => func(k, &format!("    v = \"abcdef\"[0:len({e})]\n")),
        "field_assign" => Frag {
            decls: format!("pub class Q{k}:\n    a: str\n\npub def f{k}(x: int) -> None:\n    mut m = Q{k}(a=\"\")\n    m.a = {e}\n\n"),
            sym: format!("f{k}"),
            call: format!("f{k}(1)"),
        },
        "index_assign" => func(k, &format!("    mut xs = [\"a\"]\n    xs[0] = {e}\n")),
        "compound_assign" => func(k, &format!("    mut s = \"a\"\n    s += {e}\n")),
        "tuple_unpack" => func(k, &format!("    a, b = ({e}, 1)\n")),
        "chained_assign" => func(k, &format!("    a = b = {e}\n")),
        other => panic!("unknown context {other}"),
    }
}

/// Declaration-level triggers: (name, feature or None when the construct emits nothing, declarations with `{k}`, symbol, call)
struct DeclTrigger {
    name: &'static str,
    feature: Option<Feature>,
    imports: &'static str,
    decls: &'static str,
    sym: &'static str,
    call: &'static str,
}

const DECL_TRIGGERS: [DeclTrigger; 16] = [
    DeclTrigger { name: "derive_serialize_model", feature: Some(Feature::Json), imports: "", decls: "@derive(Serialize)\npub model D{k}:\n    a: int\n\n", sym: "D{k}", call: "println(D{k}(a=1).a)" },
    DeclTrigger { name: "derive_deserialize_model", feature: Some(Feature::Json), imports: "", decls: "@derive(Deserialize)\npub model D{k}:\n    a: int\n\n", sym: "D{k}", call: "println(D{k}(a=1).a)" },
    DeclTrigger { name: "derive_both_class", feature: Some(Feature::Json), imports: "", decls: "@derive(Debug, Serialize, Deserialize)\npub class D{k}:\n    a: int\n\n", sym: "D{k}", call: "println(D{k}(a=1).a)" },
    DeclTrigger { name: "derive_second_decorator", feature: Some(Feature::Json), imports: "", decls: "@derive(Debug)\n@derive(Serialize)\npub model D{k}:\n    a: int\n\n", sym: "D{k}", call: "println(D{k}(a=1).a)" },
    DeclTrigger { name: "derive_serialize_enum", feature: None, imports: "", decls: "@derive(Serialize)\npub enum D{k}:\n    A\n    B\n\n", sym: "D{k}", call: "pass" },
    DeclTrigger { name: "to_json_from_json", feature: Some(Feature::Json), imports: "", decls: "@derive(Serialize, Deserialize)\npub model D{k}:\n    a: int\n\npub def f{k}(x: int) -> str:\n    s = D{k}(a=x).to_json()\n    match D{k}.from_json(s):\n        case Ok(d):\n            return s\n        case Err(e):\n            return e\n\n", sym: "f{k}", call: "println(f{k}(1))" },
    DeclTrigger { name: "async_def", feature: Some(Feature::Async), imports: "", decls: "pub async def f{k}() -> int:\n    return 1\n\n", sym: "f{k}", call: "pass" },
    DeclTrigger { name: "async_def_await", feature: Some(Feature::Async), imports: "", decls: "pub async def g{k}() -> int:\n    return 1\n\npub async def f{k}() -> int:\n    v = await g{k}()\n    return v\n\n", sym: "f{k}", call: "pass" },
    DeclTrigger { name: "async_model_method", feature: Some(Feature::Async), imports: "", decls: "pub model D{k}:\n    a: int\n\n    async def m(self) -> int:\n        return 1\n\n", sym: "D{k}", call: "println(D{k}(a=1).a)" },
    DeclTrigger { name: "async_class_method", feature: Some(Feature::Async), imports: "", decls: "pub class D{k}:\n    a: int\n\n    async def m(self) -> int:\n        return 1\n\n", sym: "D{k}", call: "println(D{k}(a=1).a)" },
    DeclTrigger { name: "async_trait_method", feature: None, imports: "", decls: "pub trait D{k}:\n    async def m(self) -> int:\n        return 1\n\n", sym: "D{k}", call: "pass" },
    DeclTrigger { name: "web_route", feature: Some(Feature::Web), imports: "from web import App, route, Response\n", decls: "@route(\"/p{k}\")\npub async def h{k}() -> Response:\n    return Response.ok()\n\n", sym: "h{k}", call: "pass" },
    DeclTrigger { name: "web_from_import", feature: Some(Feature::Web), imports: "from web import App\n", decls: "pub def w{k}() -> int:\n    return 1\n\n", sym: "w{k}", call: "println(w{k}())" },
    DeclTrigger { name: "web_import_module", feature: Some(Feature::Web), imports: "import web\n", decls: "pub def w{k}() -> int:\n    return 1\n\n", sym: "w{k}", call: "println(w{k}())" },
    DeclTrigger { name: "route_without_web_import", feature: Some(Feature::Web), imports: "", decls: "@route(\"/q{k}\")\npub async def h{k}() -> str:\n    return \"x\"\n\n", sym: "h{k}", call: "pass" },
    DeclTrigger { name: "plain_model", feature: None, imports: "", decls: "pub model D{k}:\n    a: int\n\n", sym: "D{k}", call: "println(D{k}(a=1).a)" },
];

/// `rust::` import forms: (name, template with {c})
const IMPORT_FORMS: [(&str, &str); 8] = [
    ("import", "import rust::{c}\n"),
    ("import_as", "import rust::{c} as al{k}\n"),
    ("import_item", "import rust::{c}::Thing{k}\n"),
    ("import_nested_item", "import rust::{c}::sub::Thing{k}\n"),
    ("import_item_as", "import rust::{c}::Thing{k} as Th{k}\n"),
    ("from", "from rust::{c} import Thing{k}\n"),
    ("from_multi", "from rust::{c} import Thing{k}, other{k} as o{k}\n"),
    ("from_nested", "from rust::{c}::sub::deep import Thing{k}\n"),
];

#[derive(Clone, Debug, PartialEq)]
enum PartKind {
    Expr { trig: usize, ctx: usize },
    Decl { d: usize },
}

#[derive(Clone, Debug, PartialEq)]
struct Part {
    kind: PartKind,
    in_dep: bool,
}

#[derive(Clone, Debug, PartialEq)]
struct Imp {
    krate: String,
    form: usize,
    in_dep: bool,
}

#[derive(Clone, Debug, PartialEq)]
struct Case {
    stem: String,
    parts: Vec<Part>,
    imports: Vec<Imp>,
    /// dependency module path (segments); used when any part/import is `in_dep` or `force_dep`
    dep_path: Vec<String>,
    force_dep: bool,
    rust_style_import: bool,
}

/// What the oracle needs to know about a rendered project (also stored in replay files).
#[derive(Clone, Debug, Default)]
struct Expect {
    stem: String,
    features: BTreeSet<String>,
    rust_imports: BTreeSet<String>,
    unknown: Vec<String>,
    /// (feature name | "rust-import:<crate>", signature tail) in part order
    attrib: Vec<(String, String)>,
}

impl Expect {
    fn to_json(&self) -> Value {
        json!({"stem": self.stem, "features": self.features, "rust_imports": self.rust_imports, "unknown": self.unknown,
               "attrib": self.attrib.iter().map(|(a, b)| json!([a, b])).collect::<Vec<_>>()})
    }
    fn from_json(v: &Value) -> Expect {
        let strs = |x: &Value| -> Vec<String> { x.as_array().map(|a| a.iter().filter_map(|s| s.as_str().map(|s| s.to_string())).collect()).unwrap_or_default() };
        Expect {
            stem: v["stem"].as_str().unwrap_or("").to_string(),
            features: strs(&v["features"]).into_iter().collect(),
            rust_imports: strs(&v["rust_imports"]).into_iter().collect(),
            unknown: strs(&v["unknown"]),
            attrib: v["attrib"]
                .as_array()
                .map(|a| a.iter().map(|p| (p[0].as_str().unwrap_or("").to_string(), p[1].as_str().unwrap_or("").to_string())).collect())
                .unwrap_or_default(),
        }
    }
}

fn part_feature(p: &Part) -> Option<Feature> {
    match &p.kind {
        PartKind::Expr { trig, .. } => Some(EXPR_TRIGGERS[*trig].feature),
        PartKind::Decl { d } => DECL_TRIGGERS[*d].feature,
    }
}

/// Signature tail of a part: root cause shaped (feature + context class, or dependency-module placement).
fn part_tail(p: &Part) -> Option<String> {
    let f = part_feature(p)?;
    if p.in_dep {
        return Some(format!("dep-module:{}", f.name()));
    }
    Some(match &p.kind {
        PartKind::Expr { ctx, .. } => format!("{}:{}", f.name(), CONTEXTS[*ctx].1),
        PartKind::Decl { d } => format!("{}:decl:{}", f.name(), DECL_TRIGGERS[*d].name),
    })
}

fn imp_tail(i: &Imp) -> String {
    if i.in_dep {
        "dep-module:rust-import".to_string()
    } else {
        format!("rust-import:{}", IMPORT_FORMS[i.form].0)
    }
}

fn render(case: &Case) -> (Project, Expect) {
    let mut main_imports = String::new();
    let mut main_decls = String::new();
    let mut main_calls: Vec<String> = Vec::new();
    let mut dep_imports = String::new();
    let mut dep_decls = String::new();
    let mut dep_syms: Vec<String> = Vec::new();
    let mut exp = Expect { stem: case.stem.clone(), ..Expect::default() };
    let mut preludes_main: BTreeSet<&'static str> = BTreeSet::new();
    let mut preludes_dep: BTreeSet<&'static str> = BTreeSet::new();

    for (k, imp) in case.imports.iter().enumerate() {
        let line = IMPORT_FORMS[imp.form].1.replace("{c}", &imp.krate).replace("{k}", &k.to_string());
        if imp.in_dep {
            dep_imports.push_str(&line);
        } else {
            main_imports.push_str(&line);
        }
        if KNOWN_GOOD.contains(&imp.krate.as_str()) {
            exp.rust_imports.insert(imp.krate.clone());
            exp.attrib.push((format!("rust-import:{}", imp.krate), imp_tail(imp)));
        } else {
            exp.unknown.push(imp.krate.clone());
            exp.attrib.push((format!("rust-import:{}", imp.krate), imp_tail(imp)));
        }
    }
    for (k, part) in case.parts.iter().enumerate() {
        let (frag, imports, prelude) = match &part.kind {
            PartKind::Expr { trig, ctx } => {
                let t = &EXPR_TRIGGERS[*trig];
                (render_ctx(*ctx, t.expr, k), "", t.prelude)
            }
            PartKind::Decl { d } => {
                let t = &DECL_TRIGGERS[*d];
                let ks = k.to_string();
                (
                    Frag { decls: t.decls.replace("{k}", &ks), sym: t.sym.replace("{k}", &ks), call: t.call.replace("{k}", &ks) },
                    t.imports,
                    "",
                )
            }
        };
        if let Some(f) = part_feature(part) {
            exp.features.insert(f.name().to_string());
            if f == Feature::Web {
                exp.features.insert("json".into());
                exp.features.insert("async".into());
            }
            if let Some(t) = part_tail(part) {
                exp.attrib.push((f.name().to_string(), t));
            }
        }
        if part.in_dep {
            if !dep_imports.contains(imports) {
                dep_imports.push_str(imports);
            }
            if !prelude.is_empty() {
                preludes_dep.insert(prelude);
            }
            dep_decls.push_str(&frag.decls);
            dep_syms.push(frag.sym.clone());
        } else {
            if !main_imports.contains(imports) {
                main_imports.push_str(imports);
            }
            if !prelude.is_empty() {
                preludes_main.insert(prelude);
            }
            main_decls.push_str(&frag.decls);
        }
        if frag.call != "pass" {
            main_calls.push(frag.call);
        }
    }
    let use_dep = case.force_dep || case.parts.iter().any(|p| p.in_dep) || case.imports.iter().any(|i| i.in_dep);
    let mut files = Vec::new();
    if use_dep {
        dep_decls.push_str("pub def dep_helper() -> int:\n    return 7\n\n");
        dep_syms.push("dep_helper".into());
        main_calls.push("println(dep_helper())".into());
        let rel = format!("{}.incn", case.dep_path.join("/"));
        let pre: String = preludes_dep.iter().copied().collect();
        files.push((rel, format!("{dep_imports}\n{pre}{dep_decls}")));
        if case.rust_style_import {
            for s in &dep_syms {
                main_imports.push_str(&format!("import {}::{}\n", case.dep_path.join("::"), s));
            }
        } else {
            main_imports.push_str(&format!("from {} import {}\n", case.dep_path.join("."), dep_syms.join(", ")));
        }
    }
    let pre: String = preludes_main.iter().copied().collect();
    let mut main_src = format!("{main_imports}\n{pre}{main_decls}def main() -> None:\n    println(\"start\")\n");
    for c in &main_calls {
        main_src.push_str(&format!("    {c}\n"));
    }
    let entry = format!("{}.incn", case.stem);
    files.push((entry.clone(), main_src));
    (Project { name: case.stem.clone(), files, entry, run_args: vec![] }, exp)
}

// ---------------------------------------------------------------------------------------------------------
// Running and judging
// ---------------------------------------------------------------------------------------------------------

#[derive(Clone, Debug)]
struct Fail {
    key: String,
    what: String,
}

#[derive(Clone, Debug, Default)]
struct Verdict {
    fails: Vec<Fail>,
    discard: Option<String>,
    inconclusive: Option<String>,
    used: Vec<String>,
    declared: Vec<String>,
    manifest: String,
}

fn collect_files(base: &Path, dir: &Path, out: &mut Vec<(String, String)>) {
    let Ok(rd) = std::fs::read_dir(dir) else { return };
    let mut es: Vec<PathBuf> = rd.flatten().map(|e| e.path()).collect();
    es.sort();
    for p in es {
        if p.is_dir() {
            if p.file_name().is_some_and(|n| n == "target") {
                continue;
            }
            collect_files(base, &p, out);
        } else if let Ok(s) = std::fs::read_to_string(&p) {
            out.push((p.strip_prefix(base).unwrap_or(&p).to_string_lossy().to_string(), s));
        }
    }
}

struct RunOut {
    build: CmdOut,
    generated: Vec<(String, String)>,
}

/// `incan build <entry> out` with a stub cargo first on PATH, in a fresh case directory.
fn run_generate(farm: &Farm, proj: &Project) -> RunOut {
    let dir = farm.case_dir();
    Farm::write_project(&dir, proj);
    let entry = dir.join(&proj.entry);
    let entry_dir = entry.parent().unwrap_or(&dir).to_path_buf();
    let entry_file = entry.file_name().unwrap().to_string_lossy().to_string();
    let path = std::env::var("PATH").unwrap_or_default();
    let mut c = Command::new(&farm.incan);
    c.arg("build").arg(&entry_file).arg("out").current_dir(&entry_dir);
    c.env("PATH", format!("{}:{}", Farm::stub_cargo_dir().display(), path)).env("NO_COLOR", "1").env_remove("RUST_LOG");
    let build = farm::run_cmd(c, Duration::from_secs(300));
    let outdir = entry_dir.join("out");
    let mut generated = Vec::new();
    collect_files(&outdir, &outdir, &mut generated);
    let _ = std::fs::remove_dir_all(&dir);
    RunOut { build, generated }
}

/// Verdict of `cargo metadata --offline --no-deps` on a generated project. It depends only on the manifest text and
/// on which target files exist, so it is cached under that key (the sweeps produce few distinct manifests).
#[derive(Clone, Debug)]
struct Meta {
    ok: bool,
    ran: bool,
    stderr: String,
}

#[derive(Default)]
struct MetaCache {
    map: Mutex<BTreeMap<u64, Meta>>,
    calls: std::sync::atomic::AtomicU64,
}

fn meta_key(generated: &[(String, String)]) -> Option<u64> {
    let manifest = generated.iter().find(|(p, _)| p == "Cargo.toml")?;
    let mut s = manifest.1.clone();
    for (p, _) in generated {
        s.push('\n');
        s.push_str(p);
    }
    Some(util::hash_str(&s))
}

impl MetaCache {
    fn get(&self, generated: &[(String, String)]) -> Option<Meta> {
        let k = meta_key(generated)?;
        self.map.lock().unwrap().get(&k).cloned()
    }
    /// Run cargo metadata on a scratch copy of the generated project (manifest + target files).
    fn compute(&self, farm: &Farm, generated: &[(String, String)]) -> Option<Meta> {
        let k = meta_key(generated)?;
        if let Some(m) = self.map.lock().unwrap().get(&k) {
            return Some(m.clone());
        }
        let dir = farm.case_dir();
        for (rel, content) in generated {
            let p = dir.join(rel);
            if let Some(parent) = p.parent() {
                let _ = std::fs::create_dir_all(parent);
            }
            let _ = std::fs::write(p, content);
        }
        let mut m = Command::new("cargo");
        m.args(["metadata", "--offline", "--no-deps", "--format-version", "1", "--manifest-path"]).arg(dir.join("Cargo.toml"));
        m.env("CARGO_NET_OFFLINE", "true").current_dir(&dir);
        let r = farm::run_cmd(m, Duration::from_secs(300));
        let _ = std::fs::remove_dir_all(&dir);
        self.calls.fetch_add(1, std::sync::atomic::Ordering::Relaxed);
        let meta = Meta { ok: r.ok(), ran: !r.timed_out && r.status.is_some(), stderr: strip_ansi(&r.stderr) };
        self.map.lock().unwrap().insert(k, meta.clone());
        Some(meta)
    }
}

/// generate + (cached) cargo metadata + judge
fn evaluate(farm: &Farm, cache: &MetaCache, proj: &Project, exp: &Expect) -> Verdict {
    let run = run_generate(farm, proj);
    let meta = cache.compute(farm, &run.generated);
    judge(exp, &run, meta.as_ref())
}

fn strip_ansi(s: &str) -> String {
    let mut out = String::new();
    let mut it = s.chars().peekable();
    while let Some(c) = it.next() {
        if c == '\x1b' {
            for d in it.by_ref() {
                if d.is_ascii_alphabetic() {
                    break;
                }
            }
        } else {
            out.push(c);
        }
    }
    out
}

fn crate_feature(c: &str) -> Option<&'static str> {
    match c {
        "serde" | "serde_json" => Some("json"),
        "tokio" => Some("async"),
        "axum" => Some("web"),
        _ => None,
    }
}

/// Judge one run against the expectations.
fn judge(exp: &Expect, run: &RunOut, meta: Option<&Meta>) -> Verdict {
    let mut v = Verdict::default();
    if run.build.timed_out || run.build.status.is_none() && run.build.signal.is_none() {
        v.inconclusive = Some(format!("incan build did not run to completion: {}", util::truncate(&run.build.stderr, 200)));
        return v;
    }
    let text = strip_ansi(&format!("{}\n{}", run.build.stdout, run.build.stderr));
    let manifest = run.generated.iter().find(|(p, _)| p == "Cargo.toml").map(|(_, s)| s.clone());
    v.manifest = manifest.clone().unwrap_or_default();

    // ---- unknown crates: refused, named
    if !exp.unknown.is_empty() {
        if run.build.ok() {
            let wild = exp.unknown.iter().filter(|c| v.manifest.contains(&format!("{c} = \"*\""))).cloned().collect::<Vec<_>>();
            v.fails.push(Fail {
                key: "unknown-crate:accepted".into(),
                what: format!(
                    "`incan build` exits 0 for unknown rust:: crate(s) {:?}; manifest lines with \"*\": {:?}",
                    exp.unknown, wild
                ),
            });
            // go on: the rest of the manifest is still judged (the unknown crates are treated as rust imports)
        } else {
            for c in &exp.unknown {
                if !text.contains(c.as_str()) {
                    v.fails.push(Fail {
                        key: "unknown-crate:not-named".into(),
                        what: format!("`incan build` fails for unknown crate `{c}` without naming it: {}", util::truncate(&text, 300)),
                    });
                }
            }
            if text.contains("panicked at") {
                v.fails.push(Fail { key: "unknown-crate:panic".into(), what: util::truncate(&text, 300) });
            }
            return v;
        }
    } else if !run.build.ok() {
        let first = text.lines().find(|l| !l.trim().is_empty()).unwrap_or("").to_string();
        let class = if first.contains("type error") {
            "compiler-rejected:type-error"
        } else if first.contains("syntax error") {
            "compiler-rejected:syntax-error"
        } else if first.contains("Code generation error") {
            "compiler-rejected:codegen-error"
        } else if text.contains("unknown Rust crate") {
            // a known-good crate refused: the table is the documented contract
            v.fails.push(Fail { key: "known-crate:refused".into(), what: util::truncate(&text, 300) });
            return v;
        } else {
            "compiler-rejected:other"
        };
        v.discard = Some(format!("{class}: {}", util::truncate(&first, 160)));
        return v;
    }

    let Some(manifest) = manifest else {
        v.fails.push(Fail { key: "manifest:missing".into(), what: "build succeeded but out/Cargo.toml does not exist".into() });
        return v;
    };
    let meta_ok = meta.is_some_and(|m| m.ok);
    let meta_text = meta.map(|m| m.stderr.clone()).unwrap_or_default();
    if meta.is_none_or(|m| !m.ran) {
        v.inconclusive = Some("cargo metadata did not run".into());
        return v;
    }
    let m = match cargoproj::parse_manifest(&manifest) {
        Ok(m) => m,
        Err(e) => {
            if meta_ok {
                v.inconclusive = Some(format!("manifest reader gave up ({e}) but cargo accepts the manifest"));
            } else {
                v.fails.push(Fail { key: "manifest:invalid".into(), what: format!("reader: {e}; cargo: {}", util::truncate(&meta_text, 300)) });
            }
            return v;
        }
    };
    if !meta_ok {
        if CARGO_RESERVED.contains(&exp.stem.as_str()) {
            v.discard = Some("name-reserved-by-cargo".into());
            return v;
        }
        v.fails.push(Fail { key: "manifest:cargo-rejects".into(), what: util::truncate(&meta_text, 400) });
    }
    // ---- names
    if m.package.get("name").map(|s| s.as_str()) != Some(exp.stem.as_str()) {
        v.fails.push(Fail { key: "manifest:package-name".into(), what: format!("[package].name = {:?}, file stem = {:?}", m.package.get("name"), exp.stem) });
    }
    if m.package.get("version").is_none_or(|s| s.is_empty()) {
        v.fails.push(Fail { key: "manifest:package-version".into(), what: "no [package].version".into() });
    }
    match m.bins.as_slice() {
        [b] => {
            if b.name.as_deref() != Some(exp.stem.as_str()) {
                v.fails.push(Fail { key: "manifest:bin-name".into(), what: format!("[[bin]].name = {:?}, file stem = {:?}", b.name, exp.stem) });
            }
            match &b.path {
                Some(p) if run.generated.iter().any(|(rel, _)| rel == p) => {}
                other => v.fails.push(Fail { key: "manifest:bin-path".into(), what: format!("[[bin]].path = {other:?} is not a generated file") }),
            }
        }
        other => v.fails.push(Fail { key: "manifest:bin-count".into(), what: format!("{} [[bin]] tables", other.len()) }),
    }
    // ---- pinning
    for d in &m.deps {
        let ver = d.version.as_deref().map(|s| s.trim());
        let path = d.path.as_deref().map(|s| s.trim());
        if ver == Some("*") {
            if !exp.unknown.contains(&d.name) {
                v.fails.push(Fail { key: "dep:wildcard".into(), what: format!("{} = {}", d.name, d.raw) });
            }
        } else if ver.is_none_or(|s| s.is_empty()) && path.is_none_or(|s| s.is_empty()) {
            v.fails.push(Fail { key: "dep:no-version-or-path".into(), what: format!("{} = {}", d.name, d.raw) });
        } else if ver.is_some_and(|s| s.is_empty()) || path.is_some_and(|s| s.is_empty()) {
            v.fails.push(Fail { key: "dep:empty-version-or-path".into(), what: format!("{} = {}", d.name, d.raw) });
        }
        if !d.other_keys.iter().all(|k| k == "default-features" || k == "optional" || k == "package") {
            v.fails.push(Fail { key: "dep:unpinned-source".into(), what: format!("{} = {}", d.name, d.raw) });
        }
    }
    // ---- U ⊆ D
    let used = cargoproj::scan_crate_roots(&run.generated);
    let declared: BTreeSet<String> = m.dep_names();
    v.used = used.keys().cloned().collect();
    v.declared = declared.iter().cloned().collect();
    for (c, whr) in &used {
        // cargo maps `-` in package names to `_` in crate names
        if declared.contains(c) || declared.contains(&c.replace('_', "-")) {
            continue;
        }
        let tail = if let Some(f) = crate_feature(c) {
            exp.attrib
                .iter()
                .find(|(ft, _)| ft == f || (ft == "web" && f != "web"))
                .or_else(|| exp.attrib.iter().find(|(ft, _)| *ft == format!("rust-import:{c}")))
                .map(|(_, t)| t.clone())
        } else {
            exp.attrib.iter().find(|(ft, _)| *ft == format!("rust-import:{c}")).map(|(_, t)| t.clone())
        };
        let key = match tail {
            Some(t) => format!("undeclared:{t}"),
            None => format!("undeclared:unattributed:{c}"),
        };
        v.fails.push(Fail { key, what: format!("generated Rust refers to crate `{c}` ({whr}) but [dependencies] declares only {:?}", v.declared) });
    }
    // ---- D ⊆ allowed
    let mut allowed: BTreeSet<String> = RUNTIME.iter().map(|s| s.to_string()).collect();
    allowed.extend(used.keys().cloned());
    allowed.extend(exp.rust_imports.iter().cloned());
    allowed.extend(exp.unknown.iter().cloned());
    for f in &exp.features {
        let feat = match f.as_str() {
            "json" => Feature::Json,
            "async" => Feature::Async,
            _ => Feature::Web,
        };
        allowed.extend(feat.crates().iter().map(|s| s.to_string()));
    }
    for d in &declared {
        if !allowed.contains(d) && !allowed.contains(&d.replace('-', "_")) {
            v.fails.push(Fail {
                key: format!("superfluous:{d}"),
                what: format!("[dependencies] declares `{d}` but the generated Rust does not refer to it, no rust:: import names it and no feature of the program needs it (features by construction: {:?})", exp.features),
            });
        }
    }
    // ---- every rust:: import declared
    for r in &exp.rust_imports {
        if !declared.contains(r) {
            let tail = exp.attrib.iter().find(|(ft, _)| *ft == format!("rust-import:{r}")).map(|(_, t)| t.clone()).unwrap_or_else(|| "rust-import".into());
            let key = format!("undeclared:{tail}");
            if !v.fails.iter().any(|f| f.key == key) {
                v.fails.push(Fail { key, what: format!("`rust::{r}` is imported by the sources but not declared in [dependencies] {:?}", v.declared) });
            }
        }
    }
    v
}

fn replay_body(proj: &Project, exp: &Expect, f: &Fail) -> String {
    serde_json::to_string_pretty(&json!({
        "name": proj.name, "entry": proj.entry,
        "files": proj.files.iter().map(|(a, b)| json!([a, b])).collect::<Vec<_>>(),
        "expect": exp.to_json(), "signature": f.key, "what": f.what,
    }))
    .unwrap()
}

fn load_replay(path: &Path) -> Option<(Project, Expect, String)> {
    let v: Value = serde_json::from_str(&std::fs::read_to_string(path).ok()?).ok()?;
    let files = v["files"].as_array()?.iter().map(|p| (p[0].as_str().unwrap_or("").to_string(), p[1].as_str().unwrap_or("").to_string())).collect();
    let proj = Project { name: v["name"].as_str()?.to_string(), files, entry: v["entry"].as_str()?.to_string(), run_args: vec![] };
    Some((proj, Expect::from_json(&v["expect"]), v["signature"].as_str().unwrap_or("").to_string()))
}

// ---------------------------------------------------------------------------------------------------------
// Strategies
// ---------------------------------------------------------------------------------------------------------

fn stem_strategy() -> impl Strategy<Value = String> {
    prop_oneof![
        4 => "[a-z][a-z0-9_]{0,10}",
        2 => "[A-Z][A-Za-z0-9]{0,8}",
        2 => "_[a-z0-9_]{1,8}",
        1 => "[a-z]{1,3}(_[0-9]{1,3}){1,2}",
        1 => "[a-z]+__[a-z0-9]+",
        1 => prop::sample::select(vec!["main", "test", "std_", "core_x", "self_", "match", "fn", "type", "async", "model", "serde", "tokio",
                                       "incan_stdlib", "r2d2", "x_1_y", "deps", "build", "examples", "incremental", "target", "src", "out", "lib", "bin"]).prop_map(|s| s.to_string()),
    ]
    .prop_filter("dep dir / out dir collision", |s| s != "_" && s != "zdep" && s != "zdep_flat" && s != "out" && s.len() <= 24)
}

fn unknown_crate_strategy() -> impl Strategy<Value = String> {
    prop_oneof![
        3 => "[a-z][a-z0-9_]{2,12}",
        1 => prop::sample::select(vec!["serde_yaml", "tokio_util", "regexx", "rand_core", "hyper", "my_crate", "axum", "tower", "serdejson", "uuid7", "log4rs", "time2"]).prop_map(|s| s.to_string()),
    ]
    .prop_filter("must be unknown and not std", |s| {
        !KNOWN_GOOD.contains(&s.as_str())
            && !["std", "core", "alloc", "crate", "self", "super", "rust", "web", "this", "incan_stdlib", "incan_derive"].contains(&s.as_str())
            && !s.ends_with('_')
            && !is_incan_keyword(s)
    })
}

fn is_incan_keyword(s: &str) -> bool {
    [
        "def", "fn", "async", "await", "return", "if", "elif", "else", "while", "for", "in", "not", "and", "or", "is", "match", "case", "model",
        "class", "trait", "enum", "type", "newtype", "import", "from", "as", "pub", "let", "mut", "const", "pass", "break", "continue", "true",
        "false", "none", "with", "extends", "self", "super", "crate", "yield", "try", "raise", "lambda", "rust", "python", "where", "impl", "use",
        "mod", "struct", "loop", "static", "ref", "move", "dyn", "unsafe", "extern", "box",
    ]
    .contains(&s)
}

/// Cells (trigger, context) that are type-compatible.
fn expr_cells() -> Vec<(usize, usize)> {
    let mut v = Vec::new();
    for (ti, t) in EXPR_TRIGGERS.iter().enumerate() {
        for (ci, c) in CONTEXTS.iter().enumerate() {
            if c.2 && !t.is_str {
                continue;
            }
            v.push((ti, ci));
        }
    }
    v
}

fn random_case(allowed_parts: Vec<Part>, allow_dep_imports: bool, allowed_import_forms: Vec<usize>) -> impl Strategy<Value = Case> {
    let parts = prop::collection::vec(prop::sample::select(allowed_parts), 0..=3);
    let forms = allowed_import_forms;
    let imports = prop::collection::vec(
        (prop::sample::select(KNOWN_GOOD.to_vec()), prop::sample::select(forms), any::<bool>()).prop_map(move |(c, f, d)| Imp {
            krate: c.to_string(),
            form: f,
            in_dep: d && allow_dep_imports,
        }),
        0..=4,
    );
    let dep_path = prop_oneof![
        Just(vec!["zdep".to_string(), "util".to_string()]),
        Just(vec!["zdep".to_string(), "inner".to_string(), "deep".to_string(), "util".to_string()]),
        Just(vec!["zdep_flat".to_string()]),
    ];
    (stem_strategy(), parts, imports, dep_path, any::<bool>(), any::<bool>()).prop_map(|(stem, parts, imports, dep_path, force_dep, rs)| Case {
        stem,
        parts,
        imports,
        dep_path,
        force_dep,
        rust_style_import: rs,
    })
}

fn simple_case(stem: &str, parts: Vec<Part>, imports: Vec<Imp>) -> Case {
    Case { stem: stem.to_string(), parts, imports, dep_path: vec!["zdep".into(), "util".into()], force_dep: false, rust_style_import: false }
}

fn case_sig(case: &Case) -> u64 {
    // distinct = (trigger set, context set, crates, placement, stem class)
    let mut s = String::new();
    for p in &case.parts {
        s.push_str(&format!("{:?}|", p));
    }
    for i in &case.imports {
        s.push_str(&format!("{}:{}:{}|", i.krate, i.form, i.in_dep));
    }
    s.push_str(&case.stem);
    util::hash_str(&s)
}

fn nontrivial(case: &Case) -> bool {
    case.parts.iter().any(|p| part_feature(p).is_some()) || !case.imports.is_empty()
}

// ---------------------------------------------------------------------------------------------------------

struct Ctx<'a> {
    farm: &'a Farm,
    cache: &'a MetaCache,
    out: Outcome,
    ev: Evidence,
    known_hits: BTreeMap<String, u64>,
    sample_next: bool,
}

impl Ctx<'_> {
    /// Evaluate a batch of cases in parallel and book the results. Returns verdicts (same order).
    fn eval_batch(&mut self, class: &str, cases: &[Case]) -> Vec<Verdict> {
        self.eval_batch_meta(class, cases, 1)
    }

    /// `meta_every`: put every n-th manifest of the batch to `cargo metadata` (1 = all).
    fn eval_batch_meta(&mut self, class: &str, cases: &[Case], meta_every: usize) -> Vec<Verdict> {
        let rendered: Vec<(Project, Expect)> = cases.iter().map(render).collect();
        let verdicts = eval_all(self.farm, self.cache, &rendered, meta_every);
        for (i, ((case, (proj, exp)), v)) in cases.iter().zip(rendered.iter()).zip(verdicts.iter()).enumerate() {
            self.ev.class(class);
            // one or two samples per leg: a case from the first third and one from the last third
            self.sample_next = i == cases.len() / 3 || (i == cases.len() - 1 - cases.len() / 5 && cases.len() > 40);
            self.book(case, proj, exp, v);
        }
        verdicts
    }

    fn book(&mut self, case: &Case, proj: &Project, exp: &Expect, v: &Verdict) {
        if let Some(why) = &v.inconclusive {
            self.out.inconclusive(why);
            self.ev.case(None);
            return;
        }
        if let Some(d) = &v.discard {
            let reason = d.split(':').take(2).collect::<Vec<_>>().join(":");
            self.ev.discard(reason.trim());
            self.ev.case(None);
            return;
        }
        self.ev.case(if nontrivial(case) { Some(case_sig(case)) } else { None });
        for p in &case.parts {
            match &p.kind {
                PartKind::Expr { trig, ctx } => {
                    self.ev.class(&format!("trigger:{}", EXPR_TRIGGERS[*trig].name));
                    self.ev.class(&format!("context:{}", CONTEXTS[*ctx].1));
                }
                PartKind::Decl { d } => self.ev.class(&format!("trigger:{}", DECL_TRIGGERS[*d].name)),
            }
            if p.in_dep {
                self.ev.class("placement:dependency-module");
            }
        }
        if self.ev.want_sample() && nontrivial(case) && self.sample_next {
            self.ev.sample(json!({"files": proj.files, "declared": v.declared, "used": v.used, "expect": exp.to_json()}));
        }
        for f in &v.fails {
            if self.out.is_known(&f.key) {
                *self.known_hits.entry(f.key.clone()).or_insert(0) += 1;
                self.ev.exclude(&f.key);
                continue;
            }
            if self.out.seen(&f.key) {
                self.ev.violations += 1;
                continue;
            }
            let body = replay_body(proj, exp, f);
            let what = format!("{}\nentry {}:\n{}\nCargo.toml:\n{}", f.what, proj.entry, proj.files.last().map(|x| x.1.as_str()).unwrap_or(""), v.manifest);
            self.out.violation(&mut self.ev, &f.key, "json", &body, &what);
        }
    }
}

/// Three phases: generate everything in parallel, run cargo metadata once per distinct manifest in parallel, judge.
fn eval_all(farm: &Farm, cache: &MetaCache, rendered: &[(Project, Expect)], meta_every: usize) -> Vec<Verdict> {
    let runs: Vec<RunOut> = farm.par_map(rendered, |(p, _)| run_generate(farm, p));
    let mut todo: BTreeMap<u64, usize> = BTreeMap::new();
    for (i, r) in runs.iter().enumerate() {
        if i % meta_every != 0 {
            continue;
        }
        if let Some(k) = meta_key(&r.generated) {
            if cache.get(&r.generated).is_none() {
                todo.entry(k).or_insert(i);
            }
        }
    }
    let idx: Vec<usize> = todo.values().copied().collect();
    farm.par_map(&idx, |&i| {
        cache.compute(farm, &runs[i].generated);
    });
    // cases whose manifest was not put to cargo (random leg of the quick tier: every `meta_every`-th is) are judged
    // by the reader alone
    let skipped = Meta { ok: true, ran: true, stderr: String::new() };
    rendered
        .iter()
        .zip(runs.iter())
        .map(|((_, e), r)| {
            let m = cache.get(&r.generated).or_else(|| meta_key(&r.generated).map(|_| skipped.clone()));
            judge(e, r, m.as_ref())
        })
        .collect()
}

fn main() {
    let args = Args::parse("C15");
    util::install_quiet_panic_hook();
    let out = Outcome::new("C15");
    let mut ev = Evidence::new(
        &args,
        "a case is one generated project pushed through `incan build` (stub cargo) and judged; it is non-trivial if it has at \
         least one feature trigger (serde derive/json_stringify/to_json, async construct, web decorator/import) or one rust:: import; \
         distinct = hash of (trigger+context+placement list, import crate+form+placement list, file stem)",
    );
    ev.assume("runtime crates incan_stdlib and incan_derive are always declared and are exempt from 'no others' (the statement lists them as needed)");
    ev.assume("a feature crate (serde, serde_json, tokio, axum) may be declared whenever the program uses the feature, even if the emitted Rust reaches it only through incan_stdlib");
    ev.assume("file stems Cargo itself forbids as binary names (deps, build, examples, incremental) are outside 'legal project names' and are discarded");
    ev.assume("a `use`-root or lower-case path root in generated Rust that is not std/core/alloc/crate/self/super, a primitive type, a tool attribute, a local module or a name brought in by `use` is an external crate (Rust 2018 name resolution)");

    let farm = Farm::new("c15");
    let cache = MetaCache::default();
    let mut cx = Ctx { farm: &farm, cache: &cache, out, ev, known_hits: BTreeMap::new(), sample_next: false };
    if let Some(n) = args.flag("max-reports").and_then(|s| s.parse().ok()) {
        cx.out.max_reports = n; // triage aid: list more distinct signatures in one run
    }

    // ---- replay mode
    if let Some(path) = &args.replay {
        match load_replay(path) {
            Some((proj, exp, _sig)) => {
                let v = evaluate(&farm, &cache, &proj, &exp);
                cx.ev.case(Some(util::hash_str(&format!("{:?}", proj.files))));
                cx.ev.sample(json!({"files": proj.files, "declared": v.declared, "used": v.used}));
                if let Some(w) = &v.inconclusive {
                    cx.out.inconclusive(w);
                }
                for f in &v.fails {
                    let body = replay_body(&proj, &exp, f);
                    cx.out.violation(&mut cx.ev, &f.key, "json", &body, &format!("{}\nCargo.toml:\n{}", f.what, v.manifest));
                }
            }
            None => cx.out.inconclusive("cannot read replay file"),
        }
        std::process::exit(cx.out.finish(&cx.ev));
    }

    // ---- canonical inputs of open known findings
    let open: Vec<_> = cx.out.known.open.clone();
    for e in &open {
        match load_replay(&e.replay) {
            Some((proj, exp, _)) => {
                let v = evaluate(&farm, &cache, &proj, &exp);
                let still = v.fails.iter().any(|f| f.key == e.key);
                cx.out.known_replayed(&e.key, still);
                for f in &v.fails {
                    if !cx.out.is_known(&f.key) {
                        let body = replay_body(&proj, &exp, f);
                        cx.out.violation(&mut cx.ev, &f.key, "json", &body, &f.what);
                    }
                }
            }
            None => cx.out.inconclusive(&format!("canonical input of known finding {} is unreadable: {}", e.key, e.replay.display())),
        }
    }

    let t0 = std::time::Instant::now();
    let mut phases: BTreeMap<String, f64> = BTreeMap::new();
    // development aid: `--legs a,b,..` runs only the named legs (A B C D E R X = real builds)
    let legs = args.flag("legs").map(|s| s.to_uppercase());
    let leg = |name: &str| legs.as_ref().is_none_or(|l| l.contains(name));
    let quick = args.tier == vcore::Tier::Quick;

    // ---- regression inputs: canonical inputs of findings that are no longer open (fixed in /repo) are judged like
    // any other case; a failure is a violation
    {
        let open_replays: BTreeSet<PathBuf> = cx.out.known.open.iter().map(|e| e.replay.clone()).collect();
        let dir = vcore::verif_root().join("known").join("C15");
        let mut files: Vec<PathBuf> = std::fs::read_dir(&dir).map(|rd| rd.flatten().map(|e| e.path()).collect()).unwrap_or_default();
        // (canonical inputs of fixed findings may be filed under known/C15/fixed/)
        files.extend(std::fs::read_dir(dir.join("fixed")).map(|rd| rd.flatten().map(|e| e.path()).collect::<Vec<_>>()).unwrap_or_default());
        files.sort();
        let mut n = 0u64;
        for f in files.iter().filter(|f| f.extension().is_some_and(|x| x == "json") && !open_replays.contains(*f)) {
            if let Some((proj, exp, _)) = load_replay(f) {
                let v = evaluate(&farm, &cache, &proj, &exp);
                n += 1;
                cx.ev.class("regression-input");
                cx.ev.case(Some(util::hash_str(&format!("{:?}", proj.files))));
                if let Some(w) = &v.inconclusive {
                    cx.out.inconclusive(w);
                }
                for fl in &v.fails {
                    if !cx.out.is_known(&fl.key) {
                        let body = replay_body(&proj, &exp, fl);
                        cx.out.violation(&mut cx.ev, &fl.key, "json", &body, &format!("regression input {}: {}", f.display(), fl.what));
                    }
                }
            }
        }
        cx.ev.set("regression_inputs_replayed", json!(n));
    }

    // ---- sweep A: every expression trigger in every context, entry module and dependency module.
    // The quick tier runs every entry-module cell and every 2nd dependency-module cell (every 4th while a
    // dependency-module finding is open: they all fail the same way then); the thorough tier runs all.
    let mut cells = Vec::new();
    let mut thinned = 0u64;
    for (n, (t, c)) in expr_cells().into_iter().enumerate() {
        if !leg("A") {
            break;
        }
        for in_dep in [false, true] {
            let p = Part { kind: PartKind::Expr { trig: t, ctx: c }, in_dep };
            let known_cell = cx.out.is_known(&format!("undeclared:{}", part_tail(&p).unwrap()));
            // sleep_ms / yield_now / spawn_blocking go through the same scanner arms as sleep: the quick tier runs
            // them in every 3rd context only
            if quick && t >= 2 && (c + t) % 3 != 0 {
                thinned += 1;
                continue;
            }
            if in_dep && quick && ((known_cell && n % 4 != 0) || n % 2 != 0) {
                if known_cell {
                    cx.ev.exclude(&format!("undeclared:{}", part_tail(&p).unwrap()));
                }
                thinned += 1;
                continue;
            }
            cells.push(simple_case("app_1", vec![p], vec![]));
        }
    }
    cx.ev.set("quick_tier_cells_left_to_thorough", json!(thinned));
    let cell_verdicts = cx.eval_batch("sweep:trigger-x-context-x-placement", &cells);
    // per-cell table for the evidence
    let mut table: BTreeMap<String, String> = BTreeMap::new();
    for (case, v) in cells.iter().zip(cell_verdicts.iter()) {
        if let PartKind::Expr { trig, ctx } = &case.parts[0].kind {
            let name = format!("{}@{}{}", EXPR_TRIGGERS[*trig].name, CONTEXTS[*ctx].0, if case.parts[0].in_dep { "@dep" } else { "" });
            let st = if let Some(d) = &v.discard {
                format!("discard({})", d.split(':').nth(1).unwrap_or("").trim())
            } else if v.fails.is_empty() {
                "ok".to_string()
            } else {
                v.fails.iter().map(|f| f.key.clone()).collect::<Vec<_>>().join(",")
            };
            if st != "ok" {
                table.insert(name, st);
            }
        }
    }
    cx.ev.set("cells_not_ok", json!(table));

    phases.insert("sweep_A_s".into(), t0.elapsed().as_secs_f64());
    // ---- sweep B: declaration-level triggers
    let mut decls = Vec::new();
    for d in 0..DECL_TRIGGERS.len() {
        if !leg("B") {
            break;
        }
        for in_dep in [false, true] {
            decls.push(simple_case("decl_app", vec![Part { kind: PartKind::Decl { d }, in_dep }], vec![]));
        }
    }
    cx.eval_batch("sweep:decl-trigger-x-placement", &decls);

    phases.insert("through_sweep_B_s".into(), t0.elapsed().as_secs_f64());
    // ---- sweep C: every known-good crate in every import form, entry and dependency module
    let mut imps = Vec::new();
    let dep_imports_known = cx.out.is_known("undeclared:dep-module:rust-import");
    for (ci, c) in KNOWN_GOOD.iter().enumerate() {
        if !leg("C") {
            break;
        }
        for f in 0..IMPORT_FORMS.len() {
            for in_dep in [false, true] {
                if in_dep && quick && dep_imports_known && f != ci % IMPORT_FORMS.len() {
                    cx.ev.exclude("undeclared:dep-module:rust-import");
                    continue;
                }
                // quick tier: three of the eight forms per crate, rotating with the crate (every form meets >= 7 crates)
                if quick && (f + IMPORT_FORMS.len() - ci % IMPORT_FORMS.len()) % IMPORT_FORMS.len() > 2 {
                    continue;
                }
                imps.push(simple_case("imp_app", vec![], vec![Imp { krate: c.to_string(), form: f, in_dep }]));
            }
        }
    }
    cx.eval_batch("sweep:known-crate-x-form-x-placement", &imps);

    phases.insert("through_sweep_C_s".into(), t0.elapsed().as_secs_f64());
    // ---- sweep D: unknown crate names
    let mut runner = vcore::gen::runner(args.subseed(151));
    let n_unknown = if leg("D") { args.tier.pick(30usize, 1500usize) } else { 0 };
    let unk_strat = (unknown_crate_strategy(), 0..IMPORT_FORMS.len(), any::<bool>(), prop::option::of(prop::sample::select(KNOWN_GOOD.to_vec())));
    let unk_trees = vcore::gen::batch(&unk_strat, &mut runner, n_unknown);
    let unk_cases: Vec<Case> = unk_trees
        .iter()
        .map(|t| {
            let (name, form, in_dep, extra) = t.current();
            // an unknown crate imported only by a dependency module is not even looked at today (known finding
            // dep-module:rust-import); keep those in the entry module so the refusal itself stays observable
            let in_dep = in_dep && !dep_imports_known;
            let mut imports = vec![Imp { krate: name, form, in_dep }];
            if let Some(k) = extra {
                imports.insert(0, Imp { krate: k.to_string(), form: 0, in_dep: false });
            }
            simple_case("unk_app", vec![], imports)
        })
        .collect();
    if dep_imports_known {
        cx.ev.exclude_n("undeclared:dep-module:rust-import", unk_trees.iter().filter(|t| t.current().2).count() as u64);
    }
    // every unknown name gives a distinct manifest; the quick tier asks cargo about every 4th (its verdict on a
    // manifest with `x = "*"` is not what this leg is about)
    cx.eval_batch_meta("sweep:unknown-crate", &unk_cases, args.tier.pick(4, 1));

    phases.insert("through_sweep_D_s".into(), t0.elapsed().as_secs_f64());
    // ---- sweep E: project names
    let n_names = if leg("E") { args.tier.pick(40usize, 3000usize) } else { 0 };
    let name_trees = vcore::gen::batch(&stem_strategy(), &mut runner, n_names);
    let json_part = Part { kind: PartKind::Expr { trig: 0, ctx: 0 }, in_dep: false };
    let name_cases: Vec<Case> = name_trees
        .iter()
        .enumerate()
        .map(|(i, t)| {
            let mut c = simple_case(&t.current(), if i % 2 == 0 { vec![json_part.clone()] } else { vec![] }, if i % 3 == 0 { vec![Imp { krate: "regex".into(), form: 0, in_dep: false }] } else { vec![] });
            c.force_dep = i % 4 == 1;
            c
        })
        .collect();
    for c in &name_cases {
        let cls = if c.stem.starts_with('_') {
            "stem:leading-underscore"
        } else if c.stem.chars().next().is_some_and(|ch| ch.is_ascii_uppercase()) {
            "stem:uppercase"
        } else if c.stem.contains("__") {
            "stem:double-underscore"
        } else if c.stem.chars().any(|ch| ch.is_ascii_digit()) {
            "stem:with-digits"
        } else {
            "stem:plain"
        };
        cx.ev.class(cls);
    }
    cx.eval_batch("sweep:project-names", &name_cases);

    phases.insert("through_sweep_E_s".into(), t0.elapsed().as_secs_f64());
    // ---- random combinations (known-failing cells are left out by construction)
    let mut allowed_parts = Vec::new();
    let mut excluded_cells: BTreeMap<String, u64> = BTreeMap::new();
    for (t, c) in expr_cells() {
        for in_dep in [false, true] {
            let p = Part { kind: PartKind::Expr { trig: t, ctx: c }, in_dep };
            let key = format!("undeclared:{}", part_tail(&p).unwrap());
            if cx.out.is_known(&key) {
                *excluded_cells.entry(key).or_insert(0) += 1;
            } else {
                allowed_parts.push(p);
            }
        }
    }
    for d in 0..DECL_TRIGGERS.len() {
        for in_dep in [false, true] {
            let p = Part { kind: PartKind::Decl { d }, in_dep };
            match part_tail(&p) {
                Some(t) if cx.out.is_known(&format!("undeclared:{t}")) => *excluded_cells.entry(format!("undeclared:{t}")).or_insert(0) += 1,
                _ => allowed_parts.push(p),
            }
        }
    }
    // cells the compiler rejects today (discards of the sweeps) are not worth drawing again
    let rejected: BTreeSet<(usize, usize, bool)> = cells
        .iter()
        .zip(cell_verdicts.iter())
        .filter(|(_, v)| v.discard.is_some())
        .filter_map(|(c, _)| match &c.parts[0].kind {
            PartKind::Expr { trig, ctx } => Some((*trig, *ctx, c.parts[0].in_dep)),
            _ => None,
        })
        .collect();
    allowed_parts.retain(|p| match &p.kind {
        PartKind::Expr { trig, ctx } => !rejected.contains(&(*trig, *ctx, p.in_dep)),
        _ => true,
    });
    cx.ev.set("random_leg_cells_excluded_by_known_finding", json!(excluded_cells));
    cx.ev.set("random_leg_cells_available", json!(allowed_parts.len()));
    let n_random = if leg("R") { args.tier.pick(100usize, 12_000usize) } else { 0 };
    let forms: Vec<usize> = (0..IMPORT_FORMS.len()).collect();
    let strat = random_case(allowed_parts, !dep_imports_known, forms);
    let mut trees = vcore::gen::batch(&strat, &mut runner, n_random);
    let rcases: Vec<Case> = trees.iter().map(|t| t.current()).collect();
    let rendered: Vec<(Project, Expect)> = rcases.iter().map(render).collect();
    let rverdicts: Vec<Verdict> = eval_all(&farm, &cache, &rendered, args.tier.pick(4, 1));
    for (i, ((case, (proj, exp)), v)) in rcases.iter().zip(rendered.iter()).zip(rverdicts.iter()).enumerate() {
        cx.ev.class("random-combination");
        cx.sample_next = i % (n_random / 3).max(1) == 1;
        let new_fail = v.fails.iter().find(|f| !cx.out.is_known(&f.key) && !cx.out.seen(&f.key)).cloned();
        if let Some(f) = new_fail {
            // shrink (bounded), keeping "some failure that is not a known finding"
            let known: Vec<String> = cx.out.known.open.iter().map(|e| e.key.clone()).collect();
            let small = vcore::gen::shrink(&mut trees[i], 60, |c: &Case| {
                let (p, e) = render(c);
                evaluate(&farm, &cache, &p, &e).fails.iter().any(|g| !known.contains(&g.key))
            });
            let (sp, se) = render(&small);
            let sv = evaluate(&farm, &cache, &sp, &se);
            if sv.fails.iter().any(|g| !known.contains(&g.key)) {
                cx.book(&small, &sp, &se, &sv);
            } else {
                let _ = f;
                cx.book(case, proj, exp, v);
            }
        } else {
            cx.book(case, proj, exp, v);
        }
    }

    phases.insert("through_random_leg_s".into(), t0.elapsed().as_secs_f64());
    // ---- real builds on a small sample (plus, in the thorough tier, rustc's word on the known findings)
    let mut build_cases: Vec<(Case, &str)> = vec![
        (simple_case("rb_plain", vec![], vec![]), "plain"),
        (simple_case("_rb1", vec![Part { kind: PartKind::Expr { trig: 0, ctx: 0 }, in_dep: false }], vec![]), "json"),
        (simple_case("Rb_2", vec![Part { kind: PartKind::Decl { d: 0 }, in_dep: false }], vec![]), "derive"),
        (simple_case("rb__3", vec![Part { kind: PartKind::Decl { d: 5 }, in_dep: false }], vec![]), "to_json"),
        (simple_case("test", vec![], vec![Imp { krate: "regex".into(), form: 0, in_dep: false }]), "regex"),
        (simple_case("rb_5", vec![Part { kind: PartKind::Expr { trig: 0, ctx: 14 }, in_dep: false }], vec![Imp { krate: "anyhow".into(), form: 0, in_dep: false }]), "json+anyhow"),
        (simple_case("rb_6", vec![Part { kind: PartKind::Decl { d: 6 }, in_dep: false }], vec![]), "async"),
        (simple_case("rb_7", vec![Part { kind: PartKind::Expr { trig: 1, ctx: 4 }, in_dep: false }], vec![]), "sleep"),
    ];
    {
        let mut c = simple_case("rb_8", vec![Part { kind: PartKind::Expr { trig: 0, ctx: 22 }, in_dep: false }], vec![]);
        c.force_dep = true;
        build_cases.push((c, "dep+json"));
        let mut c = simple_case("main", vec![], vec![Imp { krate: "log".into(), form: 0, in_dep: false }]);
        c.force_dep = true;
        c.rust_style_import = true;
        build_cases.push((c, "name-main+log"));
    }
    if args.tier == vcore::Tier::Thorough {
        build_cases.push((simple_case("rb_web", vec![Part { kind: PartKind::Decl { d: 11 }, in_dep: false }], vec![]), "web"));
        for (i, c) in rcases.iter().enumerate().filter(|(_, c)| c.imports.iter().all(|i| ["regex", "anyhow", "log", "bytes", "rand", "serde", "serde_json", "tokio"].contains(&i.krate.as_str()) && i.form <= 1) && !CARGO_RESERVED.contains(&c.stem.as_str())).take(190) {
            let _ = i;
            build_cases.push((c.clone(), "random"));
        }
    }
    if !leg("X") {
        build_cases.clear();
    }
    let bprojects: Vec<(Project, Expect)> = build_cases.iter().map(|(c, _)| render(c)).collect();
    let plist: Vec<Project> = bprojects.iter().map(|(p, _)| p.clone()).collect();
    // (the sample uses few crates: regex, anyhow, log, serde, serde_json, tokio — each worker target dir compiles them once)
    let bfarm = Farm::with_workers("c15b", args.tier.pick(farm.workers.min(5), farm.workers));
    let bouts = bfarm.run_many(&plist, Mode::Build);
    let mut built_ok = 0u64;
    for (((case, label), (proj, exp)), o) in build_cases.iter().zip(bprojects.iter()).zip(bouts.iter()) {
        cx.ev.class("real-build");
        if let Some(e) = &o.infra_error {
            cx.out.inconclusive(&format!("real build: {e}"));
            continue;
        }
        let Some(b) = &o.build else { continue };
        if b.ok() {
            built_ok += 1;
            cx.ev.case(if nontrivial(case) { Some(case_sig(case) ^ 0xB01D) } else { None });
            continue;
        }
        let text = strip_ansi(&format!("{}\n{}", b.stdout, b.stderr));
        let key = if text.contains("failed to parse manifest") || text.contains("invalid character") && text.contains("package name") {
            Some("realbuild:manifest-rejected")
        } else if text.contains("E0432") || text.contains("E0433") || text.contains("E0463") || text.contains("can't find crate") {
            Some("realbuild:undeclared-crate")
        } else if text.contains("failed to select a version") || text.contains("no matching package") {
            Some("realbuild:unresolvable-dependency")
        } else {
            None
        };
        match key {
            Some(k) => {
                let f = Fail { key: k.to_string(), what: format!("real build of sample `{label}` fails: {}", util::truncate(&text, 1200)) };
                cx.ev.case(Some(case_sig(case) ^ 0xB01D));
                if !cx.out.is_known(&f.key) {
                    let body = replay_body(proj, exp, &f);
                    cx.out.violation(&mut cx.ev, &f.key, "json", &body, &f.what);
                }
            }
            None => {
                cx.ev.case(None);
                cx.ev.discard("real-build-failed-for-other-reason");
                cx.ev.set(&format!("real_build_other_failure_{label}"), json!(util::truncate(&text, 400)));
            }
        }
    }
    phases.insert("through_real_builds_s".into(), t0.elapsed().as_secs_f64());
    cx.ev.set("cumulative_wall_by_phase", json!(phases));
    cx.ev.set("real_builds", json!({"attempted": build_cases.len(), "succeeded": built_ok}));
    cx.ev.set("known_finding_hits", json!(cx.known_hits));
    cx.ev.set("cargo_metadata_calls", json!(cache.calls.load(std::sync::atomic::Ordering::Relaxed)));
    cx.ev.set("known_good_crates", json!(KNOWN_GOOD));
    cx.ev.set(
        "contexts",
        json!(CONTEXTS.iter().map(|c| c.0).collect::<Vec<_>>()),
    );
    let Ctx { out, ev, .. } = cx;
    std::process::exit(out.finish(&ev));
}
