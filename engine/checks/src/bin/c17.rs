//! C17 — a validated newtype can never hold an invalid value.
//!
//! Farm leg (generated programs, compiled and run): newtype declarations {underlying int/float/str/List[int]} x
//! {from_underlying, single well-shaped from_x, from_underlying + another from_*, two from_* (no hook), wrong-shaped
//! from_*, none} x predicate family x construction site (27 sites, inline in main / wrapped in a free function
//! before or after the type / in a dependency module) x argument {accepted, rejected} x {literal, variable, infix,
//! call, parameter}. Oracle (statement + 12_newtypes.md): hook exists and site outside the type's own methods and
//! argument rejected => the process stops non-zero, stderr carries the hook's own failure payload, nothing after the
//! construction is printed; otherwise the wrapped value (after the hook's normalisation when checked) is printed.
//!
//! Nominal leg (in-process TypeChecker): for pairs of newtypes over the same underlying type, using one where the
//! other is expected is rejected; the twin with the right type is accepted.

use incan::frontend::typechecker::TypeChecker;
use incan::frontend::{lexer, parser};
use proptest::prelude::*;
use proptest::strategy::ValueTree;
use serde_json::{json, Value};
use vcore::farm::{Farm, FarmOut, Mode, Project};
use vcore::{gen, util, Args, Evidence, Outcome};

const K_ALIAS: &str = "unchecked-construction:hook-param-type-alias";
const K_NOMINAL_CALL: &str = "nominal:free-function-call-argument";
const K_GENERIC: &str = "unchecked-construction:generic-underlying-type";
const K_STRLIT: &str = "checked-construction-does-not-build:str-literal-before-declaration";

// ---------------------------------------------------------------------------------------------------------------------
// values, predicates
// ---------------------------------------------------------------------------------------------------------------------

#[derive(Clone, Copy, Debug, PartialEq, Eq, Hash)]
enum U {
    Int,
    Float,
    Str,
    List,
}

impl U {
    fn ty(self) -> &'static str {
        match self {
            U::Int => "int",
            U::Float => "float",
            U::Str => "str",
            U::List => "List[int]",
        }
    }
    /// documented alias spelling of the same type (language.md "Numerics"/"Collections": i64, f64, list)
    fn alias(self) -> Option<&'static str> {
        match self {
            U::Int => Some("i64"),
            U::Float => Some("f64"),
            U::Str => None,
            U::List => Some("list[int]"),
        }
    }
    fn other(self) -> &'static str {
        match self {
            U::Int => "str",
            _ => "int",
        }
    }
    fn name(self) -> &'static str {
        match self {
            U::Int => "int",
            U::Float => "float",
            U::Str => "str",
            U::List => "list",
        }
    }
}

#[derive(Clone, Debug, PartialEq)]
enum Val {
    I(i64),
    F(f64),
    S(String),
    L(Vec<i64>),
}

fn flit(f: f64) -> String {
    format!("{:?}", f)
}

impl Val {
    fn lit(&self) -> String {
        match self {
            Val::I(i) => i.to_string(),
            Val::F(f) => flit(*f),
            Val::S(s) => format!("\"{s}\""),
            Val::L(v) => format!("[{}]", v.iter().map(|x| x.to_string()).collect::<Vec<_>>().join(", ")),
        }
    }
    fn to_json(&self) -> Value {
        match self {
            Val::I(i) => json!({"i": i}),
            Val::F(f) => json!({"f": f}),
            Val::S(s) => json!({"s": s}),
            Val::L(v) => json!({"l": v}),
        }
    }
    fn from_json(v: &Value) -> Option<Val> {
        if let Some(i) = v.get("i") {
            return i.as_i64().map(Val::I);
        }
        if let Some(f) = v.get("f") {
            return f.as_f64().map(Val::F);
        }
        if let Some(s) = v.get("s") {
            return s.as_str().map(|s| Val::S(s.to_string()));
        }
        if let Some(l) = v.get("l") {
            return Some(Val::L(l.as_array()?.iter().filter_map(|x| x.as_i64()).collect()));
        }
        None
    }
}

#[derive(Clone, Debug)]
enum Pred {
    IntGt(i64),
    IntRange(i64, i64),
    IntMult(i64),
    FloatGe(f64),
    FloatLt(f64),
    StrNonEmpty,
    StrHas(char),
    StrMaxLen(usize),
    ListNonEmpty,
    ListMaxLen(usize),
    ListHas(i64),
}

const WORD: &[u8] = b"abcdefghijklmnopqrstuvwyzABCDEFGHIJKLMNOPQRSTUVWYZ0123456789";

fn word(seed: u64, len: usize) -> String {
    let mut z = seed;
    (0..len)
        .map(|_| {
            z = util::mix(z);
            WORD[(z % WORD.len() as u64) as usize] as char
        })
        .collect()
}

impl Pred {
    fn make(u: U, which: u16, k: u16) -> Pred {
        let k = k as i64;
        match u {
            U::Int => match gen::idx(which, 3) {
                0 => Pred::IntGt(k % 41 - 20),
                1 => {
                    let lo = k % 31 - 15;
                    Pred::IntRange(lo, lo + 1 + (k / 31) % 20)
                }
                _ => Pred::IntMult(2 + k % 6),
            },
            U::Float => match gen::idx(which, 2) {
                0 => Pred::FloatGe((k % 33 - 16) as f64 * 0.25),
                _ => Pred::FloatLt((k % 33 - 16) as f64 * 0.5),
            },
            U::Str => match gen::idx(which, 3) {
                0 => Pred::StrNonEmpty,
                1 => Pred::StrHas(['@', '-', 'x'][(k % 3) as usize]),
                _ => Pred::StrMaxLen(1 + (k % 6) as usize),
            },
            U::List => match gen::idx(which, 3) {
                0 => Pred::ListNonEmpty,
                1 => Pred::ListMaxLen(1 + (k % 4) as usize),
                _ => Pred::ListHas(k % 9 - 4),
            },
        }
    }
    fn valid(&self, v: &Val) -> bool {
        match (self, v) {
            (Pred::IntGt(k), Val::I(n)) => n > k,
            (Pred::IntRange(lo, hi), Val::I(n)) => lo <= n && n <= hi,
            (Pred::IntMult(m), Val::I(n)) => n % m == 0,
            (Pred::FloatGe(k), Val::F(x)) => x >= k,
            (Pred::FloatLt(k), Val::F(x)) => x < k,
            (Pred::StrNonEmpty, Val::S(s)) => !s.is_empty(),
            (Pred::StrHas(c), Val::S(s)) => s.contains(*c),
            (Pred::StrMaxLen(k), Val::S(s)) => s.len() <= *k,
            (Pred::ListNonEmpty, Val::L(v)) => !v.is_empty(),
            (Pred::ListMaxLen(k), Val::L(v)) => v.len() <= *k,
            (Pred::ListHas(x), Val::L(v)) => v.contains(x),
            _ => false,
        }
    }
    /// condition under which the hook returns Err, over parameter `p`
    fn reject_cond(&self, p: &str) -> String {
        match self {
            Pred::IntGt(k) => format!("{p} <= {k}"),
            Pred::IntRange(lo, hi) => format!("{p} < {lo} or {p} > {hi}"),
            Pred::IntMult(m) => format!("{p} % {m} != 0"),
            Pred::FloatGe(k) => format!("{p} < {}", flit(*k)),
            Pred::FloatLt(k) => format!("{p} >= {}", flit(*k)),
            Pred::StrNonEmpty => format!("len({p}) == 0"),
            Pred::StrHas(c) => format!("\"{c}\" not in {p}"),
            Pred::StrMaxLen(k) => format!("len({p}) > {k}"),
            Pred::ListNonEmpty => format!("len({p}) == 0"),
            Pred::ListMaxLen(k) => format!("len({p}) > {k}"),
            Pred::ListHas(x) => format!("{x} not in {p}"),
        }
    }
    /// a value the predicate accepts / rejects, by construction
    fn sample(&self, accept: bool, seed: u16) -> Val {
        let d = (seed % 23) as i64;
        let s64 = util::mix(seed as u64 + 77);
        match self {
            Pred::IntGt(k) => Val::I(if accept { k + 1 + d } else { k - d }),
            Pred::IntRange(lo, hi) => Val::I(if accept {
                lo + d % (hi - lo + 1)
            } else if seed % 2 == 0 {
                lo - 1 - d
            } else {
                hi + 1 + d
            }),
            Pred::IntMult(m) => Val::I(if accept { m * (d - 5) } else { m * (d - 5) + 1 + d % (m - 1) }),
            Pred::FloatGe(k) => Val::F(if accept { k + d as f64 * 0.25 } else { k - (d + 1) as f64 * 0.25 }),
            Pred::FloatLt(k) => Val::F(if accept { k - (d + 1) as f64 * 0.25 } else { k + d as f64 * 0.25 }),
            Pred::StrNonEmpty => Val::S(if accept { word(s64, 1 + (d % 8) as usize) } else { String::new() }),
            Pred::StrHas(c) => {
                let mut w = word(s64, (d % 7) as usize);
                if accept {
                    w.insert((d as usize) % (w.len() + 1), *c);
                }
                Val::S(w)
            }
            Pred::StrMaxLen(k) => Val::S(if accept { word(s64, (d as usize) % (k + 1)) } else { word(s64, k + 1 + (d % 4) as usize) }),
            Pred::ListNonEmpty => Val::L(if accept { (0..1 + d % 4).map(|i| i * 3 - d).collect() } else { vec![] }),
            Pred::ListMaxLen(k) => {
                let n = if accept { (d as usize) % (k + 1) } else { k + 1 + (d % 3) as usize };
                Val::L((0..n as i64).map(|i| d - i * 2).collect())
            }
            Pred::ListHas(x) => {
                let mut v: Vec<i64> = (0..d % 4).map(|i| x + 1 + i).collect();
                if accept {
                    v.insert((d as usize) % (v.len() + 1), *x);
                }
                Val::L(v)
            }
        }
    }
}

#[derive(Clone, Copy, Debug, PartialEq)]
enum Transform {
    Identity,
    AddInt(i64),
    Lower,
    Upper,
}

impl Transform {
    fn apply(self, v: &Val) -> Val {
        match (self, v) {
            (Transform::AddInt(c), Val::I(n)) => Val::I(n + c),
            (Transform::Lower, Val::S(s)) => Val::S(s.to_lowercase()),
            (Transform::Upper, Val::S(s)) => Val::S(s.to_uppercase()),
            _ => v.clone(),
        }
    }
    fn expr(self, p: &str) -> String {
        match self {
            Transform::Identity => p.to_string(),
            Transform::AddInt(c) => format!("{p} + {c}"),
            Transform::Lower => format!("{p}.lower()"),
            Transform::Upper => format!("{p}.upper()"),
        }
    }
}

// ---------------------------------------------------------------------------------------------------------------------
// newtype declarations
// ---------------------------------------------------------------------------------------------------------------------

#[derive(Clone, Copy, Debug, PartialEq, Eq)]
enum Wrong {
    TwoParams,
    ParamType,
    RetOption,
    RetOtherResult,
    HasSelf,
    NoPrefix,
}

#[derive(Clone, Copy, Debug, PartialEq, Eq)]
enum Hook {
    FromUnderlying,
    SingleFrom(usize),
    /// an always-failing well-shaped `from_zzz` declared first, then `from_underlying` (which must win)
    FromUnderlyingPlus,
    /// two well-shaped from_* and no from_underlying: no hook
    TwoFrom,
    Wrong(Wrong),
    None,
}

const FROM_NAMES: [&str; 5] = ["from_value", "from_str", "from_int", "from_raw", "from_x"];
const HOOK_CLASSES: [&str; 6] = ["from_underlying", "single_from_x", "from_underlying_plus_other", "two_from", "wrong_shape", "none"];

impl Hook {
    fn has_hook(self) -> bool {
        matches!(self, Hook::FromUnderlying | Hook::SingleFrom(_) | Hook::FromUnderlyingPlus)
    }
    fn class(self) -> &'static str {
        match self {
            Hook::FromUnderlying => HOOK_CLASSES[0],
            Hook::SingleFrom(_) => HOOK_CLASSES[1],
            Hook::FromUnderlyingPlus => HOOK_CLASSES[2],
            Hook::TwoFrom => HOOK_CLASSES[3],
            Hook::Wrong(_) => HOOK_CLASSES[4],
            Hook::None => HOOK_CLASSES[5],
        }
    }
    fn from_class(class: usize, sub: u16) -> Hook {
        match class {
            0 => Hook::FromUnderlying,
            1 => Hook::SingleFrom(sub as usize % FROM_NAMES.len()),
            2 => Hook::FromUnderlyingPlus,
            3 => Hook::TwoFrom,
            4 => Hook::Wrong([Wrong::TwoParams, Wrong::ParamType, Wrong::RetOption, Wrong::RetOtherResult, Wrong::HasSelf, Wrong::NoPrefix][sub as usize % 6]),
            _ => Hook::None,
        }
    }
}

#[derive(Clone, Debug)]
struct Nt {
    name: String,
    u: U,
    hook: Hook,
    pred: Pred,
    tr: Transform,
    err_enum: bool,
    /// hook parameter type spelled with the documented alias of the underlying type
    alias_param: bool,
    /// return type spelled `result[T, E]`
    msg: String,
    methods: Vec<String>,
}

impl Nt {
    fn err_ty(&self) -> String {
        if self.err_enum {
            format!("Err{}", self.name)
        } else {
            "str".to_string()
        }
    }
    fn err_expr(&self, msg: &str) -> String {
        if self.err_enum {
            format!("Err{}.Bad{}", self.name, self.name)
        } else {
            format!("\"{msg}\"")
        }
    }
    fn real_hook(&self, name: &str, msg: &str) -> String {
        let pty = if self.alias_param { self.u.alias().unwrap_or(self.u.ty()) } else { self.u.ty() };
        format!(
            "    def {name}(p: {pty}) -> Result[{t}, {e}]:\n        if {cond}:\n            return Err({err})\n        return Ok({t}({val}))\n",
            t = self.name,
            e = self.err_ty(),
            cond = self.pred.reject_cond("p"),
            err = self.err_expr(msg),
            val = self.tr.expr("p"),
        )
    }
    fn failing(&self, header: &str, ret: &str) -> String {
        format!("    def {header}:\n        return {ret}\n")
    }
    fn render(&self, public: bool) -> String {
        let t = &self.name;
        let u = self.u.ty();
        let e = self.err_ty();
        let err = format!("Err({})", self.err_expr(&format!("{}-other", self.msg)));
        let mut body = String::new();
        match self.hook {
            Hook::FromUnderlying => body.push_str(&self.real_hook("from_underlying", &self.msg)),
            Hook::SingleFrom(i) => body.push_str(&self.real_hook(FROM_NAMES[i], &self.msg)),
            Hook::FromUnderlyingPlus => {
                body.push_str(&self.failing(&format!("from_aaa(p: {u}) -> Result[{t}, {e}]"), &err));
                body.push_str(&self.real_hook("from_underlying", &self.msg));
            }
            Hook::TwoFrom => {
                body.push_str(&self.real_hook("from_a", &self.msg));
                body.push_str(&self.real_hook("from_b", &self.msg));
            }
            Hook::Wrong(w) => body.push_str(&match w {
                Wrong::TwoParams => self.failing(&format!("from_pair(p: {u}, q: {u}) -> Result[{t}, {e}]"), &err),
                Wrong::ParamType => self.failing(&format!("from_other(p: {}) -> Result[{t}, {e}]", self.u.other()), &err),
                Wrong::RetOption => self.failing(&format!("from_opt(p: {u}) -> Option[{t}]"), "None"),
                Wrong::RetOtherResult => self.failing(&format!("from_val(p: {u}) -> Result[{u}, {e}]"), &err),
                Wrong::HasSelf => self.failing(&format!("from_self(self, p: {u}) -> Result[{t}, {e}]"), &err),
                Wrong::NoPrefix => self.failing(&format!("validate(p: {u}) -> Result[{t}, {e}]"), &err),
            }),
            Hook::None => {}
        }
        for m in &self.methods {
            body.push_str(m);
        }
        let p = if public { "pub " } else { "" };
        let mut out = String::new();
        if self.err_enum {
            out.push_str(&format!("{p}enum Err{t}:\n    Bad{t}\n\n"));
        }
        if body.is_empty() {
            out.push_str(&format!("{p}type {t} = newtype {u}\n"));
        } else {
            out.push_str(&format!("{p}type {t} = newtype {u}:\n{body}"));
        }
        out
    }
}

// ---------------------------------------------------------------------------------------------------------------------
// construction sites
// ---------------------------------------------------------------------------------------------------------------------

#[derive(Clone, Copy, Debug, PartialEq, Eq, Hash)]
enum Site {
    LetInfer,
    LetAnnot,
    ArgPos,
    ArgNamed,
    Return,
    ModelField,
    ClassField,
    FieldDefault,
    ListElem,
    DictValue,
    TupleElem,
    NestedInner,
    NestedOuter,
    Comprehension,
    Closure,
    MatchArm,
    IfBranch,
    ElseBranch,
    ForBody,
    WhileBody,
    OtherClassMethod,
    OtherModelStatic,
    OtherNewtypeMethod,
    FreeFnViaOwnMethod,
    DirectDot,
    /// the type's own static method: exempt by the statement
    OwnStatic,
}

const SITES: [Site; 26] = [
    Site::LetInfer,
    Site::LetAnnot,
    Site::ArgPos,
    Site::ArgNamed,
    Site::Return,
    Site::ModelField,
    Site::ClassField,
    Site::FieldDefault,
    Site::ListElem,
    Site::DictValue,
    Site::TupleElem,
    Site::NestedInner,
    Site::NestedOuter,
    Site::Comprehension,
    Site::Closure,
    Site::MatchArm,
    Site::IfBranch,
    Site::ElseBranch,
    Site::ForBody,
    Site::WhileBody,
    Site::OtherClassMethod,
    Site::OtherModelStatic,
    Site::OtherNewtypeMethod,
    Site::FreeFnViaOwnMethod,
    Site::DirectDot,
    Site::OwnStatic,
];

impl Site {
    fn outside(self) -> bool {
        self != Site::OwnStatic
    }
    fn name(self) -> String {
        format!("{:?}", self)
    }
}

#[derive(Clone, Copy, Debug, PartialEq, Eq, Hash)]
enum Form {
    Literal,
    Var,
    Infix,
    Call,
    Param,
}
const FORMS: [Form; 5] = [Form::Literal, Form::Var, Form::Infix, Form::Call, Form::Param];

#[derive(Clone, Copy, Debug, PartialEq, Eq, Hash)]
enum Wrap {
    Main,
    FnEarly,
    FnLate,
}

#[derive(Clone, Debug)]
struct Probe {
    ty: usize,
    site: Site,
    form: Form,
    wrap: Wrap,
    /// helper declarations before the newtype declarations (forward references) or after
    early: bool,
    val: Val,
    /// an accepted filler value (first list / comprehension element, wrapper argument)
    filler: Val,
}

#[derive(Default)]
struct Parts {
    early: Vec<String>,
    late: Vec<String>,
    main: Vec<String>,
}

fn indent(lines: &[String], n: usize) -> Vec<String> {
    let pad = " ".repeat(n);
    lines.iter().map(|l| format!("{pad}{l}")).collect()
}

/// print statements for variable `var` of newtype `t` (or, with `raw`, of the underlying type)
fn prints(i: usize, var: &str, u: U, expected: &Val, raw: bool) -> Vec<String> {
    let acc = if raw { var.to_string() } else { format!("{var}.0") };
    match u {
        U::List => {
            let mut v = vec![format!("println(f\"P{i}={{len({acc})}}\")")];
            if let Val::L(xs) = expected {
                if !xs.is_empty() {
                    v.push(format!("println(f\"Q{i}={{{acc}[0]}}\")"));
                    v.push(format!("println(f\"R{i}={{{acc}[{}]}}\")", xs.len() - 1));
                }
            }
            v
        }
        _ => vec![format!("println(f\"P{i}={{{acc}}}\")")],
    }
}

/// split a value into an infix expression over two literals (no parentheses needed)
fn infix(v: &Val, seed: u64) -> String {
    let d = (seed % 7) as i64 + 1;
    match v {
        Val::I(n) => {
            if seed % 2 == 0 {
                format!("{} + {}", n - d, d)
            } else {
                format!("{} - {}", n + d, d)
            }
        }
        Val::F(x) => format!("{} + {}", flit(x - d as f64 * 0.5), flit(d as f64 * 0.5)),
        Val::S(s) => {
            let cut = (seed as usize) % (s.len() + 1);
            format!("\"{}\" + \"{}\"", &s[..cut], &s[cut..])
        }
        Val::L(xs) => {
            let cut = (seed as usize) % (xs.len() + 1);
            format!("{} + {}", Val::L(xs[..cut].to_vec()).lit(), Val::L(xs[cut..].to_vec()).lit())
        }
    }
}

fn render_probe(i: usize, p: &Probe, nts: &mut [Nt], parts: &mut Parts, multi: bool) {
    let t = nts[p.ty].name.clone();
    let u = nts[p.ty].u;
    let ut = u.ty();
    let pubk = if multi { "pub " } else { "" };
    let mut decls: Vec<String> = Vec::new();
    let mut pre: Vec<String> = Vec::new();
    let form = if p.site == Site::FieldDefault { Form::Literal } else { p.form };
    let wrapped = p.wrap != Wrap::Main || multi;
    let form = if form == Form::Param && !wrapped { Form::Var } else { form };
    // constructs that do not build today for reasons unrelated to newtypes (C02's business): a non-Copy variable used
    // inside a loop body is moved; a list literal mixing string literals and calls
    let non_copy = matches!(u, U::Str | U::List);
    let form = if non_copy && matches!(p.site, Site::ForBody | Site::WhileBody | Site::Comprehension) { Form::Literal } else { form };
    // argument expression
    let a = match form {
        Form::Literal => p.val.lit(),
        Form::Var => {
            pre.push(format!("a{i}: {ut} = {}", p.val.lit()));
            format!("a{i}")
        }
        Form::Infix => {
            if u == U::List {
                // list concatenation is not in the documented core: build by append instead
                let mut xs = match &p.val {
                    Val::L(x) => x.clone(),
                    _ => vec![],
                };
                if let Some(last) = xs.pop() {
                    pre.push(format!("mut a{i}: {ut} = {}", Val::L(xs).lit()));
                    pre.push(format!("a{i}.append({last})"));
                } else {
                    pre.push(format!("a{i}: {ut} = []"));
                }
                format!("a{i}")
            } else if let Val::S(sv) = &p.val {
                // `+` on strings does not build today (str_concat(String, &str)); f-string interpolation is the
                // documented way to compute a string
                let cut = (i + sv.len() / 2) % (sv.len() + 1);
                pre.push(format!("b{i}: str = \"{}\"", &sv[..cut]));
                format!("f\"{{b{i}}}{}\"", &sv[cut..])
            } else {
                infix(&p.val, util::hash_str(&format!("{i}{}", p.val.lit())))
            }
        }
        Form::Call => {
            decls.push(format!("{pubk}def idc{i}(a: {ut}) -> {ut}:\n    return a\n"));
            format!("idc{i}({})", p.val.lit())
        }
        Form::Param => "a".to_string(),
    };
    let a0 = p.filler.lit();
    let expected = &p.val;
    let pr = |var: &str| prints(i, var, u, expected, false);
    let mut body: Vec<String> = pre;
    let simple = |body: &mut Vec<String>, stmts: Vec<String>| {
        body.extend(stmts);
        body.extend(pr(&format!("r{i}")));
    };
    let take = format!("{pubk}def take{i}(p: {t}) -> {t}:\n    return p\n");
    match p.site {
        Site::LetInfer => simple(&mut body, vec![format!("r{i} = {t}({a})")]),
        Site::LetAnnot => simple(&mut body, vec![format!("let r{i}: {t} = {t}({a})")]),
        Site::ArgPos => {
            decls.push(take);
            simple(&mut body, vec![format!("let r{i}: {t} = take{i}({t}({a}))")]);
        }
        Site::ArgNamed => {
            decls.push(take);
            simple(&mut body, vec![format!("let r{i}: {t} = take{i}(p={t}({a}))")]);
        }
        Site::Return => {
            decls.push(format!("{pubk}def mk{i}(a: {ut}) -> {t}:\n    return {t}(a)\n"));
            simple(&mut body, vec![format!("let r{i}: {t} = mk{i}({a})")]);
        }
        Site::ModelField | Site::ClassField => {
            let kw = if p.site == Site::ModelField { "model" } else { "class" };
            decls.push(format!("{pubk}{kw} M{i}:\n    p: {t}\n    q: int = 3\n"));
            simple(&mut body, vec![format!("m{i} = M{i}(p={t}({a}))"), format!("let r{i}: {t} = m{i}.p")]);
        }
        Site::FieldDefault => {
            decls.push(format!("{pubk}model D{i}:\n    q: int\n    p: {t} = {t}({a})\n"));
            simple(&mut body, vec![format!("d{i} = D{i}(q=1)"), format!("let r{i}: {t} = d{i}.p")]);
        }
        Site::ListElem => simple(&mut body, vec![format!("xs{i} = [{t}({a0}), {t}({a})]"), format!("let r{i}: {t} = xs{i}[1]")]),
        Site::DictValue => simple(&mut body, vec![format!("dd{i} = {{7: {t}({a})}}"), format!("let r{i}: {t} = dd{i}[7]")]),
        Site::TupleElem => simple(&mut body, vec![format!("tp{i} = ({t}({a}), 1)"), format!("let r{i}: {t} = tp{i}.0")]),
        Site::NestedInner => {
            decls.push(format!("{pubk}def idf{i}(a: {ut}) -> {ut}:\n    return a\n"));
            simple(&mut body, vec![format!("let r{i}: {t} = {t}(idf{i}({a}))")]);
        }
        Site::NestedOuter => {
            decls.push(take);
            simple(&mut body, vec![format!("let r{i}: {t} = take{i}(take{i}({t}({a})))")]);
        }
        Site::Comprehension => simple(
            &mut body,
            // elements are variables: a list of string literals is emitted as Vec<&str> today (C02's business)
            vec![
                format!("ca{i}: {ut} = {a0}"),
                format!("cb{i}: {ut} = {a}"),
                format!("src{i}: List[{ut}] = [ca{i}, cb{i}]"),
                format!("ys{i} = [{t}(e) for e in src{i}]"),
                format!("let r{i}: {t} = ys{i}[1]"),
            ],
        ),
        Site::Closure => simple(&mut body, vec![format!("fn{i} = () => {t}({a})"), format!("let r{i}: {t} = fn{i}()")]),
        Site::MatchArm => {
            body.push(format!("o{i}: Option[{ut}] = Some({a})"));
            body.push(format!("match o{i}:"));
            body.push("    Some(n) =>".to_string());
            body.push(format!("        let r{i}: {t} = {t}(n)"));
            body.extend(indent(&pr(&format!("r{i}")), 8));
            body.push(format!("    None => println(\"P{i}=none\")"));
        }
        Site::IfBranch => {
            body.push("if 1 < 2:".to_string());
            body.push(format!("    let r{i}: {t} = {t}({a})"));
            body.extend(indent(&pr(&format!("r{i}")), 4));
        }
        Site::ElseBranch => {
            body.push("if 2 < 1:".to_string());
            body.push(format!("    println(\"P{i}=skip\")"));
            body.push("else:".to_string());
            body.push(format!("    let r{i}: {t} = {t}({a})"));
            body.extend(indent(&pr(&format!("r{i}")), 4));
        }
        Site::ForBody => {
            body.push(format!("for k{i} in range(0, 1):"));
            body.push(format!("    let r{i}: {t} = {t}({a})"));
            body.extend(indent(&pr(&format!("r{i}")), 4));
        }
        Site::WhileBody => {
            body.push(format!("mut w{i} = 0"));
            body.push(format!("while w{i} < 1:"));
            body.push(format!("    let r{i}: {t} = {t}({a})"));
            body.extend(indent(&pr(&format!("r{i}")), 4));
            body.push(format!("    w{i} += 1"));
        }
        Site::OtherClassMethod => {
            decls.push(format!("{pubk}class C{i}:\n    k: int\n    def make(self, a: {ut}) -> {t}:\n        return {t}(a)\n"));
            simple(&mut body, vec![format!("c{i} = C{i}(k=1)"), format!("let r{i}: {t} = c{i}.make({a})")]);
        }
        Site::OtherModelStatic => {
            decls.push(format!("{pubk}model S{i}:\n    k: int\n    def make(a: {ut}) -> {t}:\n        return {t}(a)\n"));
            simple(&mut body, vec![format!("let r{i}: {t} = S{i}.make({a})")]);
        }
        Site::OtherNewtypeMethod => {
            decls.push(format!(
                "{pubk}type N{i} = newtype int:\n    def from_underlying(n: int) -> Result[N{i}, str]:\n        return Ok(N{i}(n))\n    def make(a: {ut}) -> {t}:\n        return {t}(a)\n"
            ));
            simple(&mut body, vec![format!("let r{i}: {t} = N{i}.make({a})")]);
        }
        Site::FreeFnViaOwnMethod => {
            nts[p.ty].methods.push(format!("    def via{i}(a: {ut}) -> {t}:\n        return helper{i}(a)\n"));
            decls.push(format!("{pubk}def helper{i}(a: {ut}) -> {t}:\n    return {t}(a)\n"));
            simple(&mut body, vec![format!("let r{i}: {t} = {t}.via{i}({a})")]);
        }
        Site::DirectDot => {
            body.push(format!("u{i} = {t}({a}).0"));
            body.extend(prints(i, &format!("u{i}"), u, expected, true));
        }
        Site::OwnStatic => {
            nts[p.ty].methods.push(format!("    def own{i}(a: {ut}) -> {t}:\n        return {t}(a)\n"));
            simple(&mut body, vec![format!("let r{i}: {t} = {t}.own{i}({a})")]);
        }
    }
    let sink = if p.early { &mut parts.early } else { &mut parts.late };
    sink.extend(decls);
    if wrapped {
        let f = format!("{pubk}def probe{i}(a: {ut}) -> None:\n{}\n", indent(&body, 4).join("\n"));
        if p.wrap == Wrap::FnEarly {
            parts.early.push(f);
        } else {
            parts.late.push(f);
        }
        let arg = if form == Form::Param { p.val.lit() } else { p.filler.lit() };
        parts.main.push(format!("probe{i}({arg})"));
    } else {
        parts.main.extend(body);
    }
}

// ---------------------------------------------------------------------------------------------------------------------
// programs and expectations
// ---------------------------------------------------------------------------------------------------------------------

#[derive(Clone, Debug)]
struct Prog {
    nts: Vec<Nt>,
    probes: Vec<Probe>,
    multi: bool,
}

#[derive(Clone, Debug, PartialEq)]
enum Want {
    /// these tagged values are printed (each entry: tag, acceptable values)
    Prints(Vec<(String, Vec<Val>)>),
    /// the process stops with the validation failure; `payload` must be in stderr when Some
    Panics { payload: Option<String> },
    /// exempt site with a rejected argument: either outcome
    Either(Vec<(String, Vec<Val>)>, Option<String>),
}

fn tagged(i: usize, vals: &[Val]) -> Vec<(String, Vec<Val>)> {
    // vals: acceptable wrapped values (1 or 2)
    let mut out = Vec::new();
    match &vals[0] {
        Val::L(_) => {
            out.push((format!("P{i}"), vals.iter().map(|v| if let Val::L(x) = v { Val::I(x.len() as i64) } else { v.clone() }).collect()));
            if let Val::L(xs) = &vals[0] {
                if !xs.is_empty() {
                    out.push((format!("Q{i}"), vec![Val::I(xs[0])]));
                    out.push((format!("R{i}"), vec![Val::I(xs[xs.len() - 1])]));
                }
            }
        }
        _ => out.push((format!("P{i}"), vals.to_vec())),
    }
    out
}

fn want_of(i: usize, p: &Probe, nt: &Nt) -> Want {
    let valid = nt.pred.valid(&p.val);
    let checked_val = nt.tr.apply(&p.val);
    let payload = if nt.err_enum { None } else { Some(nt.msg.clone()) };
    if !nt.hook.has_hook() {
        return Want::Prints(tagged(i, &[p.val.clone()]));
    }
    if p.site.outside() {
        if valid {
            Want::Prints(tagged(i, &[checked_val]))
        } else {
            Want::Panics { payload }
        }
    } else {
        let mut vals = vec![p.val.clone()];
        if checked_val != p.val {
            vals.push(checked_val);
        }
        if valid {
            Want::Prints(tagged(i, &vals))
        } else {
            Want::Either(tagged(i, &[p.val.clone()]), payload)
        }
    }
}

struct Built {
    project: Project,
    wants: Vec<Want>,
}

fn build(prog: &Prog, name: &str) -> Built {
    let mut nts = prog.nts.clone();
    let mut parts = Parts::default();
    let n = prog.probes.len();
    for (i, p) in prog.probes.iter().enumerate() {
        if i + 1 == n {
            parts.main.push("println(\"BEFORE\")".to_string());
        }
        render_probe(i, p, &mut nts, &mut parts, prog.multi);
    }
    parts.main.push("println(\"AFTER\")".to_string());
    let wants = prog.probes.iter().enumerate().map(|(i, p)| want_of(i, p, &prog.nts[p.ty])).collect();
    let mut top = String::new();
    for d in &parts.early {
        top.push_str(d);
        top.push('\n');
    }
    for nt in &nts {
        top.push_str(&nt.render(prog.multi));
        top.push('\n');
    }
    for d in &parts.late {
        top.push_str(d);
        top.push('\n');
    }
    let main = format!("def main() -> None:\n{}\n", indent(&parts.main, 4).join("\n"));
    let project = if prog.multi {
        let imports: Vec<String> = (0..n).map(|i| format!("probe{i}")).collect();
        Project {
            name: name.to_string(),
            files: vec![
                ("ntdep.incn".to_string(), top),
                (format!("{name}.incn"), format!("from ntdep import {}\n\n{main}", imports.join(", "))),
            ],
            entry: format!("{name}.incn"),
            run_args: vec![],
        }
    } else {
        Project::single(name, &format!("{top}{main}"))
    };
    Built { project, wants }
}

#[derive(Clone, Debug)]
struct Meta {
    site: String,
    hook: String,
    /// root cause already recorded as a known finding that this probe's declaration exercises
    cause: Option<String>,
}

fn metas(prog: &Prog) -> Vec<Meta> {
    prog.probes
        .iter()
        .map(|p| {
            let nt = &prog.nts[p.ty];
            // generated programs never carry a known-finding cause: constructs of open findings are excluded by
            // construction, so any failure is reported under its own signature (only canonical inputs name a cause)
            Meta { site: p.site.name(), hook: nt.hook.class().to_string(), cause: None }
        })
        .collect()
}

fn want_json(w: &Want) -> Value {
    let tags = |t: &Vec<(String, Vec<Val>)>| -> Value { Value::Array(t.iter().map(|(k, vs)| json!([k, vs.iter().map(|v| v.to_json()).collect::<Vec<_>>()])).collect()) };
    match w {
        Want::Prints(t) => json!({"prints": tags(t)}),
        Want::Panics { payload } => json!({"panics": payload}),
        Want::Either(t, payload) => json!({"either": tags(t), "payload": payload}),
    }
}

fn want_from_json(v: &Value) -> Option<Want> {
    let tags = |a: &Value| -> Option<Vec<(String, Vec<Val>)>> {
        a.as_array()?
            .iter()
            .map(|e| Some((e.get(0)?.as_str()?.to_string(), e.get(1)?.as_array()?.iter().filter_map(Val::from_json).collect())))
            .collect()
    };
    if let Some(p) = v.get("prints") {
        return Some(Want::Prints(tags(p)?));
    }
    if let Some(e) = v.get("either") {
        return Some(Want::Either(tags(e)?, v.get("payload").and_then(|p| p.as_str()).map(|s| s.to_string())));
    }
    if let Some(p) = v.get("panics") {
        return Some(Want::Panics { payload: p.as_str().map(|s| s.to_string()) });
    }
    None
}

fn replay_json(b: &Built, metas: &[Meta], key: &str) -> String {
    serde_json::to_string_pretty(&json!({
        "kind": "farm",
        "signature": key,
        "name": b.project.name,
        "entry": b.project.entry,
        "files": b.project.files.iter().map(|(p, c)| json!([p, c])).collect::<Vec<_>>(),
        "wants": b.wants.iter().map(want_json).collect::<Vec<_>>(),
        "meta": metas.iter().map(|m| json!({"site": m.site, "hook": m.hook, "cause": m.cause})).collect::<Vec<_>>(),
    }))
    .unwrap()
}

#[derive(Clone, Debug)]
enum Verdict {
    Pass,
    Discard(String, String),
    Infra(String),
    Fail { key: String, detail: String },
}

fn val_matches(text: &str, want: &Val) -> bool {
    match want {
        Val::I(i) => text.trim().parse::<i64>().ok() == Some(*i),
        Val::F(f) => text.trim().parse::<f64>().ok() == Some(*f),
        Val::S(s) => text == s,
        Val::L(_) => false,
    }
}

const PANIC_TEXT: &str = "validated newtype construction failed";

fn judge(wants: &[Want], metas: &[Meta], out: &FarmOut, stats: &mut Stats) -> Verdict {
    if let Some(e) = &out.infra_error {
        return Verdict::Infra(e.clone());
    }
    if let Some(c) = &out.check {
        if c.status.is_none() && c.stderr.starts_with("spawn failed") {
            return Verdict::Infra(c.stderr.clone());
        }
        if !c.ok() {
            return Verdict::Discard("check-rejected".into(), util::truncate(&format!("{}{}", c.stdout, c.stderr), 1500));
        }
    }
    let Some(b) = &out.build else { return Verdict::Infra("no build result".into()) };
    if !b.ok() {
        let text = format!("{}{}", b.stdout, b.stderr);
        // cargo lost a file in the shared target directory (another process cleaned it): tool trouble, not a verdict
        if !text.contains("error[E") && (text.contains("could not parse/generate dep info") || text.contains("failed to remove")) {
            return Verdict::Infra(format!("cargo trouble in the worker target dir: {}", util::truncate(&text, 400)));
        }
        // a rustc snippet line (`NN |  code`) that shows the rewritten hook call
        let related = text.lines().any(|l| {
            let t = l.trim_start();
            t.chars().next().is_some_and(|c| c.is_ascii_digit()) && t.contains(" | ") && (t.contains("::from_") || t.contains(PANIC_TEXT))
        });
        return if related {
            let key = if text.contains("expected `String`, found `&str`") { K_STRLIT } else { "checked-construction-does-not-build" };
            Verdict::Fail { key: key.into(), detail: util::truncate(&text, 3000) }
        } else {
            Verdict::Discard("build-failed-unrelated".into(), util::truncate(&text, 1500))
        };
    }
    let Some(r) = &out.run else { return Verdict::Infra("no run result".into()) };
    if r.status.is_none() && r.signal.is_none() && r.stderr.starts_with("spawn failed") {
        return Verdict::Infra(format!("binary vanished before it could be started: {}", r.stderr));
    }
    if r.timed_out {
        return Verdict::Infra("program watchdog".into());
    }
    let mut seen: Vec<(String, String)> = Vec::new();
    for l in r.stdout.lines() {
        if let Some((k, v)) = l.split_once('=') {
            seen.push((k.to_string(), v.to_string()));
        } else {
            seen.push((l.to_string(), String::new()));
        }
    }
    let get = |k: &str| seen.iter().find(|(a, _)| a == k).map(|(_, v)| v.clone());
    let stopped = r.status != Some(0);
    let has_text = r.stderr.contains(PANIC_TEXT);
    let n = wants.len();
    let check_tags = |tags: &Vec<(String, Vec<Val>)>| -> Result<(), (bool, String)> {
        for (k, vals) in tags {
            match get(k) {
                None => return Err((true, format!("line {k}=... missing"))),
                Some(v) => {
                    if !vals.iter().any(|w| val_matches(&v, w)) {
                        return Err((false, format!("{k}={v:?}, expected one of {:?}", vals)));
                    }
                }
            }
        }
        Ok(())
    };
    let ctx = |i: usize| format!("{}:{}", metas[i].site, metas[i].hook);
    let keyed = |i: usize, kind: &str| -> String { metas[i].cause.clone().unwrap_or_else(|| format!("{kind}:{}", ctx(i))) };
    let tail = || format!("status={:?} signal={:?}\nstdout:\n{}\nstderr:\n{}", r.status, r.signal, util::truncate(&r.stdout, 1200), util::truncate(&r.stderr, 1200));
    for (i, w) in wants.iter().enumerate() {
        let last = i + 1 == n;
        if last && get("BEFORE").is_none() {
            return Verdict::Fail { key: keyed(i.saturating_sub(1), "unexpected-stop"), detail: format!("BEFORE marker missing\n{}", tail()) };
        }
        match w {
            Want::Prints(tags) => {
                if let Err((missing, m)) = check_tags(tags) {
                    let kind = if missing && stopped {
                        if has_text { "accepted-argument-rejected" } else { "unexpected-stop" }
                    } else if missing {
                        "missing-output"
                    } else {
                        "wrong-value"
                    };
                    return Verdict::Fail { key: keyed(i, kind), detail: format!("probe {i}: {m}\n{}", tail()) };
                }
                if last && (stopped || get("AFTER").is_none()) {
                    return Verdict::Fail { key: keyed(i, "unexpected-stop"), detail: format!("probe {i}: program did not finish\n{}", tail()) };
                }
            }
            Want::Panics { payload } => {
                if !last {
                    return Verdict::Infra("generator bug: rejected probe not last".into());
                }
                let printed = match w {
                    Want::Panics { .. } => seen.iter().any(|(k, _)| k == &format!("P{i}")),
                    _ => false,
                };
                if printed || get("AFTER").is_some() || !stopped {
                    let key = keyed(i, "unchecked-construction");
                    return Verdict::Fail {
                        key,
                        detail: format!("probe {i}: the hook rejects the argument, yet the program went on (value line printed: {printed})\n{}", tail()),
                    };
                }
                if r.signal.is_some() {
                    return Verdict::Fail { key: keyed(i, "stop-by-signal"), detail: tail() };
                }
                if has_text {
                    stats.panic_text_seen += 1;
                }
                if let Some(p) = payload {
                    stats.payload_demanded += 1;
                    if !r.stderr.contains(p.as_str()) {
                        return Verdict::Fail {
                            key: keyed(i, "stop-without-validation-failure"),
                            detail: format!("probe {i}: stderr lacks the hook's failure payload {p:?}\n{}", tail()),
                        };
                    }
                }
            }
            Want::Either(tags, payload) => {
                let ok_print = check_tags(tags).is_ok() && !stopped && get("AFTER").is_some();
                let ok_panic = stopped && r.signal.is_none() && get("AFTER").is_none() && payload.as_ref().is_none_or(|p| r.stderr.contains(p.as_str()));
                if ok_panic {
                    stats.exempt_checked += 1;
                } else if ok_print {
                    stats.exempt_raw += 1;
                } else {
                    return Verdict::Fail { key: keyed(i, "exempt-site-misbehaves"), detail: tail() };
                }
            }
        }
    }
    // nothing unexpected printed
    let allowed: Vec<String> = wants
        .iter()
        .flat_map(|w| match w {
            Want::Prints(t) | Want::Either(t, _) => t.iter().map(|(k, _)| k.clone()).collect::<Vec<_>>(),
            _ => vec![],
        })
        .chain(["BEFORE".to_string(), "AFTER".to_string()])
        .collect();
    if let Some((k, v)) = seen.iter().find(|(k, _)| !allowed.contains(k)) {
        return Verdict::Fail { key: "unexpected-output".into(), detail: format!("line {k}={v}\n{}", tail()) };
    }
    Verdict::Pass
}

#[derive(Default)]
struct Stats {
    panic_text_seen: u64,
    payload_demanded: u64,
    exempt_checked: u64,
    exempt_raw: u64,
}

// ---------------------------------------------------------------------------------------------------------------------
// generator
// ---------------------------------------------------------------------------------------------------------------------

#[derive(Clone, Debug)]
struct TG {
    under: u16,
    hook_class: u16,
    hook_sub: u16,
    pred: u16,
    k: u16,
    tr: u16,
    err_enum: u16,
    alias: u16,
}

#[derive(Clone, Debug)]
struct PG {
    ty: u16,
    site: u16,
    form: u16,
    wrap: u16,
    early: bool,
    seed: u16,
}

#[derive(Clone, Debug)]
struct Gene {
    types: Vec<TG>,
    probes: Vec<PG>,
    last: PG,
    last_rejected: u16,
    multi: u16,
}

fn tg_strategy() -> impl Strategy<Value = TG> {
    (any::<u16>(), any::<u16>(), any::<u16>(), any::<u16>(), any::<u16>(), any::<u16>(), any::<u16>(), any::<u16>())
        .prop_map(|(under, hook_class, hook_sub, pred, k, tr, err_enum, alias)| TG { under, hook_class, hook_sub, pred, k, tr, err_enum, alias })
}
fn pg_strategy() -> impl Strategy<Value = PG> {
    (any::<u16>(), any::<u16>(), any::<u16>(), any::<u16>(), any::<bool>(), any::<u16>()).prop_map(|(ty, site, form, wrap, early, seed)| PG { ty, site, form, wrap, early, seed })
}
fn gene_strategy() -> impl Strategy<Value = Gene> {
    (proptest::collection::vec(tg_strategy(), 1..=2), proptest::collection::vec(pg_strategy(), 1..=4), pg_strategy(), any::<u16>(), any::<u16>())
        .prop_map(|(types, probes, last, last_rejected, multi)| Gene { types, probes, last, last_rejected, multi })
}

const HOOK_WEIGHTS: [usize; 12] = [0, 0, 0, 1, 1, 1, 2, 2, 3, 4, 4, 5];
const U_ALL: [U; 4] = [U::Int, U::Float, U::Str, U::List];

struct Forced {
    site: Option<usize>,
    hook_class: Option<usize>,
}

struct Realised {
    prog: Prog,
    excluded: Vec<&'static str>,
}

#[derive(Clone, Copy)]
struct Allow {
    alias: bool,
    generic: bool,
    strlit: bool,
}

fn realise(g: &Gene, f: &Forced, allow: Allow) -> Realised {
    let mut excluded: Vec<&'static str> = Vec::new();
    let names = ["Tqa", "Tqb"];
    let mut nts: Vec<Nt> = Vec::new();
    for (j, t) in g.types.iter().enumerate() {
        let mut u = U_ALL[gen::idx(t.under, 4)];
        let mut class = HOOK_WEIGHTS[gen::idx(t.hook_class, HOOK_WEIGHTS.len())];
        if j == 0 {
            if let Some(c) = f.hook_class {
                class = c;
            }
        }
        let hook = Hook::from_class(class, t.hook_sub);
        if u == U::List && hook.has_hook() && !allow.generic {
            excluded.push(K_GENERIC);
            u = U::Int;
        }
        let pred = Pred::make(u, t.pred, t.k);
        let tr = match (u, gen::idx(t.tr, 3)) {
            (U::Int, 2) => Transform::AddInt(1000),
            (U::Str, 1) => Transform::Lower,
            (U::Str, 2) => Transform::Upper,
            _ => Transform::Identity,
        };
        let mut alias_param = hook.has_hook() && u.alias().is_some() && gen::idx(t.alias, 100) >= 88;
        if alias_param && !allow.alias {
            excluded.push(K_ALIAS);
            alias_param = false;
        }
        nts.push(Nt {
            name: names[j].to_string(),
            u,
            hook,
            pred,
            tr,
            err_enum: gen::idx(t.err_enum, 100) >= 80,
            alias_param,
            msg: format!("E17-{}-refused", names[j]),
            methods: vec![],
        });
    }
    let multi = gen::idx(g.multi, 100) >= 88;
    let str_hook = |nt: &Nt| nt.u == U::Str && nt.hook.has_hook();
    let mut excl_sites = 0usize;
    let mk = |pg: &PG, site: Option<usize>, ty: Option<usize>, accept: bool| -> Probe {
        let ty = ty.unwrap_or(gen::idx(pg.ty, nts.len()));
        let nt = &nts[ty];
        let mut site = SITES[site.unwrap_or(gen::idx(pg.site, SITES.len()))];
        // `Type.method(...)` inside a dependency module is emitted as a field access (rustc E0599): not C17's business
        if multi && matches!(site, Site::OtherModelStatic | Site::OtherNewtypeMethod | Site::FreeFnViaOwnMethod | Site::OwnStatic) {
            site = Site::OtherClassMethod;
        }
        let mut wrap = [Wrap::Main, Wrap::Main, Wrap::FnEarly, Wrap::FnLate][gen::idx(pg.wrap, 4)];
        let mut early = pg.early;
        // a string literal handed to the rewritten call from code placed before the newtype declaration
        if str_hook(nt) && !allow.strlit && (early || wrap == Wrap::FnEarly) {
            excl_sites += 1;
            early = false;
            if wrap == Wrap::FnEarly {
                wrap = Wrap::FnLate;
            }
        }
        Probe {
            ty,
            site,
            form: FORMS[gen::idx(pg.form, FORMS.len())],
            wrap,
            early,
            val: nt.pred.sample(accept, pg.seed),
            filler: nt.pred.sample(true, pg.seed.wrapping_add(13)),
        }
    };
    let mut mk = mk;
    let mut probes: Vec<Probe> = g.probes.iter().map(|p| mk(p, None, None, true)).collect();
    let rejected = gen::idx(g.last_rejected, 100) < 85;
    probes.push(mk(&g.last, f.site, Some(0), !rejected));
    for _ in 0..excl_sites {
        excluded.push(K_STRLIT);
    }
    Realised { prog: Prog { nts, probes, multi }, excluded }
}

fn nontrivial_id(prog: &Prog) -> Option<u64> {
    let p = prog.probes.last()?;
    let nt = &prog.nts[p.ty];
    let trivial = matches!(p.site, Site::LetInfer | Site::LetAnnot) && p.wrap == Wrap::Main && !prog.multi && nt.hook == Hook::FromUnderlying && p.form == Form::Literal;
    if trivial {
        return None;
    }
    let shape = format!(
        "{:?}|{}|{}|{:?}|{}|{:?}|{:?}|{:?}|{}|{}",
        nt.u,
        nt.hook.class(),
        std::mem::discriminant(&nt.pred) == std::mem::discriminant(&Pred::IntGt(0)),
        nt.tr,
        nt.err_enum,
        p.site,
        p.wrap,
        p.form,
        nt.pred.valid(&p.val),
        prog.multi
    );
    Some(util::hash_str(&format!("{shape}|{:?}", nt.pred)))
}

// ---------------------------------------------------------------------------------------------------------------------
// nominal typing leg (in-process)
// ---------------------------------------------------------------------------------------------------------------------

#[derive(Clone, Copy, Debug, PartialEq, Eq)]
enum NomSite {
    LetAnnot,
    Reassign,
    ReturnCtor,
    ReturnVar,
    PassFn,
    PassNamed,
    PassVar,
    PassMethod,
    ModelField,
    ListLit,
    ListAppend,
    VarToVar,
    OptionSome,
    TupleElem,
    DictValue,
}
const NOM_SITES: [NomSite; 15] = [
    NomSite::LetAnnot,
    NomSite::Reassign,
    NomSite::ReturnCtor,
    NomSite::ReturnVar,
    NomSite::PassFn,
    NomSite::PassNamed,
    NomSite::PassVar,
    NomSite::PassMethod,
    NomSite::ModelField,
    NomSite::ListLit,
    NomSite::ListAppend,
    NomSite::VarToVar,
    NomSite::OptionSome,
    NomSite::TupleElem,
    NomSite::DictValue,
];

impl NomSite {
    fn is_free_call(self) -> bool {
        matches!(self, NomSite::PassFn | NomSite::PassNamed | NomSite::PassVar)
    }
}

#[derive(Clone, Debug)]
struct NomGene {
    under: u16,
    hook_a: bool,
    hook_b: bool,
    v: u16,
    order: bool,
}

fn nom_strategy() -> impl Strategy<Value = NomGene> {
    (any::<u16>(), any::<bool>(), any::<bool>(), any::<u16>(), any::<bool>()).prop_map(|(under, hook_a, hook_b, v, order)| NomGene { under, hook_a, hook_b, v, order })
}

fn nom_decl(name: &str, u: U, hook: bool) -> String {
    if hook {
        format!("type {name} = newtype {ut}:\n    def from_underlying(p: {ut}) -> Result[{name}, str]:\n        return Ok({name}(p))\n\n", ut = u.ty())
    } else {
        format!("type {name} = newtype {}\n\n", u.ty())
    }
}

/// program where the offending position holds a value of newtype `x`, the context expects `Na`
fn nom_src(g: &NomGene, site: NomSite, x: &str) -> String {
    let u = U_ALL[gen::idx(g.under, 4)];
    let lit = match u {
        U::Int => Val::I(g.v as i64 % 50),
        U::Float => Val::F((g.v % 40) as f64 * 0.5),
        U::Str => Val::S(word(g.v as u64, 3)),
        U::List => Val::L(vec![g.v as i64 % 9, 2]),
    }
    .lit();
    let (d1, d2) = (nom_decl("Na", u, g.hook_a), nom_decl("Nb", u, g.hook_b));
    let decls = if g.order { format!("{d1}{d2}") } else { format!("{d2}{d1}") };
    let (helpers, body): (String, Vec<String>) = match site {
        NomSite::LetAnnot => (String::new(), vec![format!("let x: Na = {x}({lit})")]),
        NomSite::Reassign => (String::new(), vec![format!("mut x: Na = Na({lit})"), format!("x = {x}({lit})")]),
        NomSite::ReturnCtor => (format!("def f() -> Na:\n    return {x}({lit})\n\n"), vec!["r = f()".into()]),
        NomSite::ReturnVar => (format!("def f(b: {x}) -> Na:\n    return b\n\n"), vec![format!("r = f({x}({lit}))")]),
        NomSite::PassFn => ("def g(a: Na) -> int:\n    return 1\n\n".into(), vec![format!("r = g({x}({lit}))")]),
        NomSite::PassNamed => ("def g(a: Na) -> int:\n    return 1\n\n".into(), vec![format!("r = g(a={x}({lit}))")]),
        NomSite::PassVar => ("def g(a: Na) -> int:\n    return 1\n\n".into(), vec![format!("b = {x}({lit})"), "r = g(b)".into()]),
        NomSite::PassMethod => (
            "class K:\n    k: int\n    def m(self, a: Na) -> int:\n        return 1\n\n".into(),
            vec!["k = K(k=1)".into(), format!("r = k.m({x}({lit}))")],
        ),
        NomSite::ModelField => ("model M:\n    a: Na\n\n".into(), vec![format!("m = M(a={x}({lit}))")]),
        NomSite::ListLit => (String::new(), vec![format!("xs: List[Na] = [{x}({lit})]")]),
        NomSite::ListAppend => (String::new(), vec!["mut xs: List[Na] = []".into(), format!("xs.append({x}({lit}))")]),
        NomSite::VarToVar => (String::new(), vec![format!("b = {x}({lit})"), "let y: Na = b".into()]),
        NomSite::OptionSome => (String::new(), vec![format!("let o: Option[Na] = Some({x}({lit}))")]),
        NomSite::TupleElem => (String::new(), vec![format!("let t: Tuple[Na, int] = ({x}({lit}), 1)")]),
        NomSite::DictValue => (String::new(), vec![format!("d: Dict[int, Na] = {{1: {x}({lit})}}")]),
    };
    format!("{decls}{helpers}def main() -> None:\n{}\n    println(\"done\")\n", indent(&body, 4).join("\n"))
}

#[derive(Debug, PartialEq)]
enum Checked {
    Accepted,
    Rejected(String),
    ParseError(String),
    Panic(String),
}

fn check_src(src: &str) -> Checked {
    let r = util::catch(|| {
        let tokens = match lexer::lex(src) {
            Ok(t) => t,
            Err(es) => return Checked::ParseError(es.first().map(|e| e.message.clone()).unwrap_or_default()),
        };
        let ast = match parser::parse(&tokens) {
            Ok(a) => a,
            Err(es) => return Checked::ParseError(es.first().map(|e| e.message.clone()).unwrap_or_default()),
        };
        let mut tc = TypeChecker::new();
        match tc.check_with_imports(&ast, &[]) {
            Ok(()) => Checked::Accepted,
            Err(es) => Checked::Rejected(es.iter().map(|e| e.message.clone()).collect::<Vec<_>>().join("; ")),
        }
    });
    r.unwrap_or_else(Checked::Panic)
}

/// None = holds; Some((key, detail)) = fails; Err = noise (twin not accepted)
fn judge_nominal(site: &str, free_call: bool, mixed: &str, twin: &str) -> Result<Option<(String, String)>, String> {
    match check_src(twin) {
        Checked::Accepted => {}
        other => return Err(format!("twin not accepted: {other:?}")),
    }
    match check_src(mixed) {
        Checked::Rejected(_) => Ok(None),
        Checked::Accepted => {
            let key = if free_call { K_NOMINAL_CALL.to_string() } else { format!("nominal:accepted:{site}") };
            Ok(Some((key, format!("a value of newtype Nb is accepted where Na is expected ({site})\n{mixed}"))))
        }
        Checked::ParseError(m) => Err(format!("mixed program does not parse: {m}")),
        Checked::Panic(m) => Ok(Some((format!("nominal:checker-panic:{site}"), m))),
    }
}

fn nominal_replay_json(site: &str, free_call: bool, mixed: &str, twin: &str, key: &str) -> String {
    serde_json::to_string_pretty(&json!({"kind": "nominal", "signature": key, "site": site, "free_call": free_call, "mixed": mixed, "twin": twin})).unwrap()
}

// ---------------------------------------------------------------------------------------------------------------------
// driver
// ---------------------------------------------------------------------------------------------------------------------

fn project_from_json(v: &Value) -> Option<(Project, Vec<Want>, Vec<Meta>)> {
    let files: Vec<(String, String)> = v.get("files")?.as_array()?.iter().filter_map(|e| Some((e.get(0)?.as_str()?.to_string(), e.get(1)?.as_str()?.to_string()))).collect();
    let project = Project { name: v.get("name")?.as_str()?.to_string(), files, entry: v.get("entry")?.as_str()?.to_string(), run_args: vec![] };
    let wants: Vec<Want> = v.get("wants")?.as_array()?.iter().filter_map(want_from_json).collect();
    let metas: Vec<Meta> = v
        .get("meta")?
        .as_array()?
        .iter()
        .map(|m| Meta {
            site: m.get("site").and_then(|s| s.as_str()).unwrap_or("?").to_string(),
            hook: m.get("hook").and_then(|s| s.as_str()).unwrap_or("?").to_string(),
            cause: m.get("cause").and_then(|s| s.as_str()).map(|s| s.to_string()),
        })
        .collect();
    if wants.len() != metas.len() || wants.is_empty() {
        return None;
    }
    Some((project, wants, metas))
}

/// Judge one replay file. Ok(None) = holds, Ok(Some((key, detail))) = fails, Err = cannot judge.
fn judge_replay_file(text: &str, farm: &mut Option<Farm>) -> Result<Option<(String, String)>, String> {
    let v: Value = serde_json::from_str(text).map_err(|e| format!("replay file is not JSON: {e}"))?;
    match v.get("kind").and_then(|k| k.as_str()) {
        Some("nominal") => {
            let site = v.get("site").and_then(|s| s.as_str()).unwrap_or("?");
            let free = v.get("free_call").and_then(|s| s.as_bool()).unwrap_or(false);
            let mixed = v.get("mixed").and_then(|s| s.as_str()).ok_or("no mixed program")?;
            let twin = v.get("twin").and_then(|s| s.as_str()).ok_or("no twin program")?;
            judge_nominal(site, free, mixed, twin)
        }
        Some("farm") => {
            let (project, wants, metas) = project_from_json(&v).ok_or("malformed farm replay file")?;
            let f = farm.get_or_insert_with(|| Farm::new("c17"));
            f.run_timeout = std::time::Duration::from_secs(120);
            let out = f.run_one(&project, Mode::CheckBuildRun);
            let mut st = Stats::default();
            match judge(&wants, &metas, &out, &mut st) {
                Verdict::Pass => Ok(None),
                Verdict::Fail { key, detail } => Ok(Some((key, detail))),
                Verdict::Discard(r, d) => Err(format!("{r}: {d}")),
                Verdict::Infra(e) => Err(e),
            }
        }
        _ => Err("unknown replay kind".into()),
    }
}

fn main() {
    let args = Args::parse("C17");
    util::install_quiet_panic_hook();
    // symbolising a panic backtrace costs seconds of CPU per generated program; the oracle never reads it
    std::env::set_var("RUST_BACKTRACE", "0");
    let mut out = Outcome::new("C17");
    let mut ev = Evidence::new(
        &args,
        "farm leg: one case = one compiled program (1-2 newtype declarations, 1-4 accepted construction probes, one final probe that \
         is rejected in ~85% of the programs). Non-trivial: the final probe's site is not a top-level let in main, or the hook is not a \
         plain from_underlying, or the argument is not a literal, or the program is multi-file. Distinct = hash(underlying, hook class, \
         predicate, transform, error type, site, wrapper, argument form, accepted/rejected, multi-file). Nominal leg: one case = a \
         (mixed, twin) pair of programs; always non-trivial; distinct = hash(mixed source).",
    );
    ev.assume("a construction inside the type's own methods may be checked or raw (the statement exempts it); both are accepted");
    ev.assume("the validation failure is recognised by the hook's own Err payload on stderr (str payloads only); the compiler's context text is counted, not demanded");
    ev.assume("a newtype without a hook (none / two from_* / wrong-shaped from_*) wraps the value unchanged (12_newtypes.md: construct by calling, read with .0)");
    let mut farm: Option<Farm> = None;

    if let Some(path) = &args.replay {
        let text = std::fs::read_to_string(path).unwrap_or_default();
        ev.case(Some(util::hash_str(&text)));
        ev.sample(json!({"replay": path.display().to_string()}));
        match judge_replay_file(&text, &mut farm) {
            Ok(None) => {}
            Ok(Some((key, detail))) => {
                out.violation(&mut ev, &key, "json", &text, &detail);
            }
            Err(e) => out.inconclusive(&format!("replay: {e}")),
        }
        std::process::exit(out.finish(&ev));
    }

    // ---- known findings: replay canonical inputs
    let known = out.known.open.clone();
    for k in &known {
        let text = std::fs::read_to_string(&k.replay).unwrap_or_default();
        match judge_replay_file(&text, &mut farm) {
            Ok(Some((key, _))) if key == k.key => out.known_replayed(&k.key, true),
            Ok(Some((key, detail))) => {
                out.violation(&mut ev, &key, "json", &text, &format!("canonical input of known finding {} fails differently\n{detail}", k.key));
            }
            Ok(None) => out.known_replayed(&k.key, false),
            Err(e) => out.inconclusive(&format!("known finding {}: {e}", k.key)),
        }
    }
    // ---- regression corpus: canonical inputs of fixed findings must hold
    if let Ok(rd) = std::fs::read_dir(vcore::verif_root().join("known/C17/fixed")) {
        let mut files: Vec<_> = rd.flatten().map(|e| e.path()).filter(|p| p.extension().is_some_and(|e| e == "json")).collect();
        files.sort();
        for fpath in files {
            let text = std::fs::read_to_string(&fpath).unwrap_or_default();
            let name = fpath.file_stem().map(|s| s.to_string_lossy().to_string()).unwrap_or_default();
            ev.case(Some(util::hash_str(&text)));
            ev.class("regression-input");
            match judge_replay_file(&text, &mut farm) {
                Ok(None) => {}
                Ok(Some((key, detail))) => {
                    out.violation(&mut ev, &format!("regression:{name}"), "json", &text, &format!("a fixed finding is back ({key})\n{detail}"));
                }
                Err(e) => out.inconclusive(&format!("regression input {}: {e}", fpath.display())),
            }
        }
    }
    let allow = Allow { alias: !out.is_known(K_ALIAS), generic: !out.is_known(K_GENERIC), strlit: !out.is_known(K_STRLIT) };
    let call_known = out.is_known(K_NOMINAL_CALL);

    // ---- nominal leg
    let n_nom = args.tier.pick(600usize, 20_000usize);
    let mut runner = gen::runner(args.subseed(171));
    let trees = gen::batch(&nom_strategy(), &mut runner, n_nom);
    let mut fallback: Vec<(String, String, String)> = Vec::new(); // (site, mixed, twin) judged by the build
    let fallback_max = args.tier.pick(6usize, 60usize);
    for (i, t) in trees.iter().enumerate() {
        let g = t.current();
        let site = NOM_SITES[(i + args.seed as usize) % NOM_SITES.len()];
        let sname = format!("{site:?}");
        let mixed = nom_src(&g, site, "Nb");
        let twin = nom_src(&g, site, "Na");
        ev.case(Some(util::hash_str(&mixed)));
        ev.class(&format!("nominal:{sname}"));
        if i < 2 {
            ev.sample(json!({"leg": "nominal", "site": sname, "mixed": mixed}));
        }
        if site.is_free_call() && call_known {
            ev.exclude(K_NOMINAL_CALL);
            if fallback.len() < fallback_max {
                fallback.push((sname.clone(), mixed.clone(), twin.clone()));
            }
            // the twin must still be accepted
            if let Checked::Rejected(m) = check_src(&twin) {
                ev.discard(&format!("nominal-twin-rejected:{sname}"));
                let _ = m;
            }
            continue;
        }
        match judge_nominal(&sname, site.is_free_call(), &mixed, &twin) {
            Ok(None) => {}
            Ok(Some((key, detail))) => {
                if !out.seen(&key) {
                    out.violation(&mut ev, &key, "json", &nominal_replay_json(&sname, site.is_free_call(), &mixed, &twin, &key), &detail);
                } else {
                    ev.violations += 1;
                }
            }
            Err(why) => {
                ev.discard(&format!("nominal-noise:{sname}"));
                let _ = why;
            }
        }
    }

    // ---- farm leg
    let n_prog = args.tier.pick(80usize, 3000usize);
    let mut runner = gen::runner(args.subseed(172));
    let mut trees = gen::batch(&gene_strategy(), &mut runner, n_prog);
    // stratification of the final probe: sites cycle with period 26, hook classes with period 11 (coprime), so every
    // (site, class) pair is reached; 6 of 11 programs have a real hook, 5 of 11 a declaration without one
    const CLASS_SEQ: [usize; 11] = [0, 1, 2, 3, 0, 1, 4, 2, 3, 4, 5];
    let forced_of = |i: usize| -> Forced {
        let s = (i + args.seed as usize * 7) % SITES.len();
        let hook_class = Some(CLASS_SEQ[(i + args.seed as usize * 3) % CLASS_SEQ.len()]);
        Forced { site: Some(s), hook_class }
    };
    let f = farm.get_or_insert_with(|| Farm::new("c17"));
    f.run_timeout = std::time::Duration::from_secs(120);
    let mut progs: Vec<Prog> = Vec::new();
    let mut builts: Vec<Built> = Vec::new();
    for (i, t) in trees.iter().enumerate() {
        let r = realise(&t.current(), &forced_of(i), allow);
        for k in &r.excluded {
            ev.exclude(k);
        }
        builts.push(build(&r.prog, &format!("c17p{i}")));
        progs.push(r.prog);
    }
    let mut projects: Vec<Project> = builts.iter().map(|b| b.project.clone()).collect();
    // nominal fallback: programs the checker wrongly accepts must at least fail to build
    let nfarm = projects.len();
    for (j, (_, mixed, _)) in fallback.iter().enumerate() {
        projects.push(Project::single(&format!("c17n{j}"), mixed));
    }
    let dump = std::env::var("VERIF_DEV_DUMP").ok().map(std::path::PathBuf::from);
    if let Some(d) = &dump {
        for p in &projects {
            let _ = std::fs::create_dir_all(d.join(&p.name));
            for (rel, c) in &p.files {
                let _ = std::fs::write(d.join(&p.name).join(rel), c);
            }
        }
    }
    let shrink_budget: usize = std::env::var("VERIF_SHRINK_ITERS").ok().and_then(|s| s.parse().ok()).unwrap_or(args.tier.pick(12, 40));
    let outs = f.run_many(&projects, Mode::CheckBuildRun);
    let mut stats = Stats::default();
    let mut discards = 0usize;
    let mut discard_samples: Vec<Value> = Vec::new();
    for i in 0..nfarm {
        let prog = &progs[i];
        let ms = metas(prog);
        let last = prog.probes.last().unwrap();
        let nt = &prog.nts[last.ty];
        ev.case(nontrivial_id(prog));
        ev.class(&format!("site:{}", last.site.name()));
        ev.class(&format!("hook:{}", nt.hook.class()));
        ev.class(&format!("underlying:{}", nt.u.name()));
        ev.class(&format!("final-arg:{}", if nt.pred.valid(&last.val) { "accepted" } else { "rejected" }));
        ev.class(&format!("form:{:?}", last.form));
        ev.class(&format!("wrap:{}", if prog.multi { "dependency-module".to_string() } else { format!("{:?}", last.wrap) }));
        ev.class_n("accepted-probes", (prog.probes.len() - 1) as u64);
        if matches!(builts[i].wants.last(), Some(Want::Panics { .. })) {
            ev.class("expect:stop-with-validation-failure");
        }
        if i % (nfarm / 5).max(1) == 0 {
            ev.sample(json!({"leg": "farm", "files": builts[i].project.files, "final_site": last.site.name(), "final_expect": want_json(builts[i].wants.last().unwrap())}));
        }
        match judge(&builts[i].wants, &ms, &outs[i], &mut stats) {
            Verdict::Pass => {}
            Verdict::Infra(e) => out.inconclusive(&format!("program {i}: {e}")),
            Verdict::Discard(reason, detail) => {
                discards += 1;
                ev.discard(&reason);
                if let Some(d) = &dump {
                    let _ = std::fs::write(d.join(format!("c17p{i}.discard.txt")), format!("{reason}\n{detail}"));
                }
                if discard_samples.len() < 3 {
                    discard_samples.push(json!({"reason": reason, "detail": detail, "files": builts[i].project.files}));
                }
            }
            Verdict::Fail { key, detail } => {
                if let Some(d) = &dump {
                    let _ = std::fs::write(d.join(format!("c17p{i}.fail.txt")), format!("{key}\n{detail}"));
                }
                if out.seen(&key) || out.is_known(&key) || out.violations.len() >= out.max_reports {
                    ev.violations += 1;
                    continue;
                }
                // bounded shrinking on the farm, same signature
                let forced = forced_of(i);
                let mut counter = 0usize;
                let small = gen::shrink(&mut trees[i], shrink_budget, |g: &Gene| {
                    counter += 1;
                    let r = realise(g, &forced, allow);
                    let b = build(&r.prog, &format!("c17s{i}x{counter}"));
                    let o = f.run_one(&b.project, Mode::CheckBuildRun);
                    let mut st = Stats::default();
                    matches!(judge(&b.wants, &metas(&r.prog), &o, &mut st), Verdict::Fail { key: k2, .. } if k2 == key)
                });
                let r = realise(&small, &forced, allow);
                let b = build(&r.prog, &format!("c17r{i}"));
                let o = f.run_one(&b.project, Mode::CheckBuildRun);
                let mut st = Stats::default();
                let (b, ms2, detail) = match judge(&b.wants, &metas(&r.prog), &o, &mut st) {
                    Verdict::Fail { key: k2, detail: d2 } if k2 == key => (b, metas(&r.prog), d2),
                    _ => (build(prog, &format!("c17r{i}")), ms.clone(), detail),
                };
                let src: String = b.project.files.iter().map(|(p, c)| format!("--- {p}\n{c}")).collect();
                out.violation(&mut ev, &key, "json", &replay_json(&b, &ms2, &key), &format!("{detail}\n{src}"));
            }
        }
    }
    for (j, (site, mixed, twin)) in fallback.iter().enumerate() {
        let o = &outs[nfarm + j];
        ev.class("nominal-fallback:build-must-fail");
        if o.infra_error.is_some() {
            out.inconclusive(&format!("nominal fallback {j}: {:?}", o.infra_error));
            continue;
        }
        let built = o.build.as_ref().is_some_and(|b| b.ok());
        if built {
            let key = format!("nominal:swapped-newtypes-build-and-run:{site}");
            if !out.seen(&key) {
                out.violation(&mut ev, &key, "json", &nominal_replay_json(site, false, mixed, twin, &key), &format!("the program mixes two newtypes in a call and still builds\n{mixed}"));
            }
        }
    }
    if discards * 5 > nfarm {
        out.inconclusive(&format!("{discards} of {nfarm} generated programs were discarded (generator out of step with the compiler)"));
    }
    ev.set("discard_samples", Value::Array(discard_samples));
    ev.set("stops_with_compiler_context_text", json!(stats.panic_text_seen));
    ev.set("stops_with_payload_demanded", json!(stats.payload_demanded));
    ev.set("exempt_site_rejected_checked", json!(stats.exempt_checked));
    ev.set("exempt_site_rejected_raw", json!(stats.exempt_raw));
    ev.set("nominal_pairs", json!(n_nom));
    ev.set("farm_programs", json!(nfarm));
    std::process::exit(out.finish(&ev));
}
