//! Pre-build the runtime crates (incan_stdlib, incan_derive, serde, serde_json) once in every worker target
//! directory by pushing a hello-world and a serde program through `incan build`.
use vcore::farm::{Farm, Mode, Project};

fn main() {
    let farm = Farm::new("warm");
    let hello = Project::single("warmhello", "def main() -> None:\n    println(\"hello\")\n");
    let serde = Project::single(
        "warmserde",
        "@derive(Serialize, Deserialize, Debug, Clone, Eq)\nmodel P:\n    x: int\n    y: str\n\ndef main() -> None:\n    p = P(x=1, y=\"a\")\n    println(json_stringify(p))\n",
    );
    let bad = farm.warm(&[hello, serde], Mode::BuildRun);
    if bad > 0 {
        eprintln!("warm: {bad} builds failed");
        std::process::exit(1);
    }
    println!("warm: {} worker target dirs ready", farm.workers);
}
