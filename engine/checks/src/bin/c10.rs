//! C10 — layout and comments never change how a program is parsed.
//!
//! Metamorphic check. Base programs: every repository seed file that parses, its `format_source` output when that
//! parses, programs of the harness's own nested-block generator (`vcore::layout::program_strategy`), and whatever the
//! plug-in hook below supplies. The real lexer's token spans of the base text are used to aim *layout edits* at
//! positions outside string / f-string / byte-string tokens: end-of-line comment, own-line comment at any column, blank
//! and whitespace-only lines, trailing spaces/tabs, add/remove final newline, comment/blank tail at EOF while blocks are
//! open, LF->CRLF (all or some lines), a line break after any token inside brackets with arbitrary continuation
//! indentation, consistent re-indentation (2 / 4 spaces, tabs, tabs mixed with 4-space units, other widths).
//!
//! Oracle: lex + parse of the edited text succeed and the span-erased syntax tree equals the base's.
//!
//! Legs: (1) exhaustive — for a fixed set of base programs *all* positions of every edit kind; (2) proptest scripts
//! (base index + 1..6 raw edits applied in sequence, judged after every step, shrinkable); (3) thorough tier only:
//! the `fz_layout` libFuzzer target; its saved corpus is replayed in the quick tier.

use proptest::prelude::*;
use proptest::strategy::ValueTree;
use rayon::prelude::*;
use serde_json::json;
use std::collections::BTreeMap;
use vcore::layout::{self, judge, Analysis, Edit, Fail, RawEdit};
use vcore::{util, Args, Evidence, Outcome};

const PROP: &str = "C10";

#[derive(Clone)]
struct Base {
    name: String,
    class: &'static str,
    text: String,
    fp: u64,
    hash: u64,
}

/// Explanation for a report: first differing declaration of the two span-erased dumps + first differing token.
fn explain(base: &str, edited: &str) -> String {
    let mut s = String::new();
    if let (Ok((tb, ab)), Ok((te, ae))) = (layout::lex_parse(base), layout::lex_parse(edited)) {
        let (db, de) = (layout::ast_dump(&ab), layout::ast_dump(&ae));
        for (i, (x, y)) in db.lines().zip(de.lines()).enumerate() {
            if x != y {
                let p = x.bytes().zip(y.bytes()).take_while(|(a, b)| a == b).count();
                let from = p.saturating_sub(60);
                let cut = |z: &str| util::truncate(&z[floor_boundary(z, from)..], 220);
                s.push_str(&format!("declaration #{i} differs:\n  base:   …{}\n  edited: …{}\n", cut(x), cut(y)));
                break;
            }
        }
        if db.lines().count() != de.lines().count() {
            s.push_str(&format!("declaration count {} vs {}\n", db.lines().count(), de.lines().count()));
        }
        if let Some((i, x, y)) = layout::first_token_difference(&tb, &te) {
            s.push_str(&format!("token streams differ at index {i}: base {x} / edited {y}\n"));
        }
    } else if let Ok(toks_b) = incan_syntax::lexer::lex(base) {
        if let Ok(toks_e) = incan_syntax::lexer::lex(edited) {
            if let Some((i, x, y)) = layout::first_token_difference(&toks_b, &toks_e) {
                s.push_str(&format!("token streams differ at index {i}: base {x} / edited {y}\n"));
            } else {
                s.push_str("token streams (kinds) are identical\n");
            }
        }
    }
    s
}

fn floor_boundary(s: &str, mut i: usize) -> usize {
    while i > 0 && !s.is_char_boundary(i) {
        i -= 1;
    }
    i.min(s.len())
}

fn replay_body(base: &str, edited: &str, script: &str, key: &str) -> String {
    serde_json::to_string_pretty(&json!({"signature": key, "script": script, "base": base, "edited": edited})).unwrap()
}

fn known_construct(a: &Analysis, e: &Edit, out: &Outcome) -> Option<&'static str> {
    if out.known.open.is_empty() {
        return None;
    }
    let keys: Vec<String> = out.known.open.iter().map(|k| k.key.clone()).collect();
    layout::known_construct(a, e, &keys)
}

// ------------------------------------------------------------------------------------------------------------
// base programs
// ------------------------------------------------------------------------------------------------------------

/// PLUG-IN HOOK for additional base programs. Anything returned here is used exactly like a repository seed
/// (it must parse; otherwise it is counted as discarded): every `*.incn` under `<verif>/corpus/layout_bases/`
/// (drop files there) and the programs of the grammar-directed generator `vcore::gsyn`.
fn plug_in_bases(seed: u64, n: usize, ev: &mut Evidence) -> Vec<(String, &'static str, String)> {
    let mut out = Vec::new();
    let dir = vcore::verif_root().join("corpus").join("layout_bases");
    if let Ok(rd) = std::fs::read_dir(&dir) {
        let mut ps: Vec<_> = rd.flatten().map(|e| e.path()).filter(|p| p.extension().is_some_and(|e| e == "incn")).collect();
        ps.sort();
        for p in ps {
            if let Ok(t) = std::fs::read_to_string(&p) {
                out.push((format!("plug-in:{}", p.file_name().unwrap_or_default().to_string_lossy()), "plug-in", t));
            }
        }
    }
    // G-syn: grammar-directed programs over every AST node kind, with its own layout variation (comments, multi-line
    // brackets, indent units) — more shapes of base text than the small generator below produces
    let cfg = vcore::gsyn::GsynConfig::default();
    let strat = vcore::gsyn::program(&cfg);
    let mut runner = vcore::gen::runner(util::mix(seed ^ 0x6773_796e));
    for (i, t) in vcore::gen::batch(&strat, &mut runner, n).iter().enumerate() {
        let p = t.current();
        if p.parsed {
            out.push((format!("gsyn#{i}"), "gsyn", p.source));
        } else {
            ev.discard("gsyn-noise-does-not-parse");
        }
    }
    out
}

fn make_base(name: String, class: &'static str, text: String) -> Option<Base> {
    let r = util::catch(|| layout::lex_parse(&text));
    match r {
        Ok(Ok((_t, ast))) => Some(Base { name, class, fp: layout::ast_fingerprint(&ast), hash: util::hash_str(&text), text }),
        _ => None,
    }
}

fn collect_bases(args: &Args, ev: &mut Evidence, n_generated: usize) -> Vec<Base> {
    let mut bases = Vec::new();
    let root = vcore::repo_root();
    let mut seen = std::collections::HashSet::new();
    for p in util::repo_seed_files() {
        let Ok(text) = std::fs::read_to_string(&p) else { continue };
        let name = p.strip_prefix(&root).unwrap_or(&p).display().to_string();
        if !seen.insert(util::hash_str(&text)) {
            ev.discard("seed-duplicate");
            continue;
        }
        match make_base(name.clone(), "seed", text.clone()) {
            Some(b) => {
                bases.push(b);
                // the formatter's output is another, differently laid out, text of the same program family
                if let Ok(Ok(f)) = util::catch(|| incan::format_source(&text)) {
                    if f != text && seen.insert(util::hash_str(&f)) {
                        match make_base(format!("fmt({name})"), "formatted", f) {
                            Some(b) => bases.push(b),
                            None => ev.discard("formatted-output-does-not-parse"),
                        }
                    }
                }
            }
            None => ev.discard("seed-does-not-parse"),
        }
    }
    for (name, class, text) in plug_in_bases(args.seed, n_generated * 3 / 5, ev) {
        if !seen.insert(util::hash_str(&text)) {
            continue;
        }
        match make_base(name, class, text) {
            Some(b) => bases.push(b),
            None => ev.discard("plug-in-does-not-parse"),
        }
    }
    // own generator
    let strat = layout::program_strategy();
    let mut runner = vcore::gen::runner(args.subseed(101));
    let trees = vcore::gen::batch(&strat, &mut runner, n_generated);
    for (i, t) in trees.iter().enumerate() {
        let text = t.current();
        if !seen.insert(util::hash_str(&text)) {
            ev.discard("generated-duplicate");
            continue;
        }
        match make_base(format!("gen#{i}"), "generated", text) {
            Some(b) => bases.push(b),
            None => ev.discard("generated-does-not-parse"),
        }
    }
    bases
}

// ------------------------------------------------------------------------------------------------------------

struct CaseResult {
    kind: &'static str,
    applied: bool,
    nontrivial_id: Option<u64>,
    excluded: Option<&'static str>,
    fail: Option<(Fail, String)>, // fail + edited text
}

fn run_one(b: &Base, a: &Analysis, e: &Edit, out: &Outcome) -> CaseResult {
    let kind = e.kind();
    if let Some(k) = known_construct(a, e, out) {
        return CaseResult { kind, applied: false, nontrivial_id: None, excluded: Some(k), fail: None };
    }
    let Some(edited) = layout::apply(a, e) else {
        return CaseResult { kind, applied: false, nontrivial_id: None, excluded: None, fail: None };
    };
    let nt = e.nontrivial(a).then(|| util::hash_of(&(b.hash, e)));
    let fail = judge(b.fp, &edited, kind).err().map(|f| (f, edited));
    CaseResult { kind, applied: true, nontrivial_id: nt, excluded: None, fail }
}

fn report(out: &mut Outcome, ev: &mut Evidence, base: &str, edited: &str, script: &str, f: &Fail) {
    if out.is_known(&f.key) {
        // a known signature reached through a path the construct predicate did not cover: count, do not alarm twice
        ev.exclude(&f.key);
        return;
    }
    if out.seen(&f.key) {
        ev.violations += 1;
        return;
    }
    let what = format!("{}\nscript: {}\n{}--- edited text ---\n{}", f.what, script, explain(base, edited), util::truncate(edited, 1500));
    out.violation(ev, &f.key, "json", &replay_body(base, edited, script, &f.key), &what);
}

/// Apply a raw script step by step; returns the first failure (with the step's edit kind in the key).
fn run_script(b: &Base, script: &[RawEdit], out: &Outcome, stats: Option<&mut ScriptStats>) -> Option<(Fail, String, String)> {
    let mut cur = b.text.clone();
    let mut desc = String::new();
    let mut local = ScriptStats::default();
    let mut result = None;
    for r in script {
        let Some(a) = Analysis::new(&cur) else { break };
        let e = r.resolve(&a);
        if let Some(k) = known_construct(&a, &e, out) {
            *local.excluded.entry(k).or_insert(0) += 1;
            continue;
        }
        let Some(next) = layout::apply(&a, &e) else {
            local.inapplicable += 1;
            continue;
        };
        local.steps += 1;
        *local.kinds.entry(e.kind()).or_insert(0) += 1;
        if e.nontrivial(&a) {
            local.nontrivial = true;
        }
        desc.push_str(&format!("{:?}; ", e));
        if let Err(f) = judge(b.fp, &next, e.kind()) {
            result = Some((f, next, desc.clone()));
            break;
        }
        cur = next;
    }
    local.final_text_hash = util::hash_str(&cur);
    local.desc = desc;
    local.final_text = cur;
    if let Some(s) = stats {
        *s = local;
    }
    result
}

#[derive(Default)]
struct ScriptStats {
    steps: u32,
    inapplicable: u32,
    nontrivial: bool,
    kinds: BTreeMap<&'static str, u64>,
    excluded: BTreeMap<&'static str, u64>,
    final_text_hash: u64,
    final_text: String,
    desc: String,
}

fn workers() -> usize {
    std::env::var("VERIF_WORKERS").ok().and_then(|s| s.parse().ok()).unwrap_or(8).max(1)
}

fn main() {
    let args = Args::parse(PROP);
    util::install_quiet_panic_hook();
    let mut out = Outcome::new(PROP);
    let mut ev = Evidence::new(
        &args,
        "case = (base program that parses, layout edit or script of 1..6 edits at generated positions outside string tokens); \
         exhaustive leg: every admissible position of every edit kind on a fixed set of bases; random leg: proptest scripts. \
         Non-trivial: the edit lands at block depth >= 1, next to an INDENT/DEDENT boundary, inside brackets, or at EOF with \
         open blocks (whole-file edits: the file has a block). Distinct = hash(base text, edit) resp. hash(base text, resolved script).",
    );
    ev.assume("the real lexer's token spans of the *base* text are used to aim edits (string tokens are never touched)");
    ev.assume("lines inside multi-line string tokens are never re-indented, CRLF-converted or commented (that would change a literal)");
    ev.assume("a tab counts as 4 columns wherever it appears in leading whitespace (property statement)");

    if let Err(e) = layout::eraser_self_check() {
        out.inconclusive(&format!("oracle self-check failed: {e}"));
        std::process::exit(out.finish(&ev));
    }
    let pool = rayon::ThreadPoolBuilder::new().num_threads(workers()).stack_size(256 << 20).build().expect("thread pool");

    // ---- replay: {"base": .., "edited": ..}
    if let Some(path) = &args.replay {
        let text = std::fs::read_to_string(path).unwrap_or_default();
        let v: serde_json::Value = serde_json::from_str(&text).unwrap_or(json!({}));
        let (Some(base), Some(edited)) = (v["base"].as_str(), v["edited"].as_str()) else {
            out.inconclusive("replay file is not {base, edited}");
            std::process::exit(out.finish(&ev));
        };
        let kind = v["signature"].as_str().and_then(|s| s.split(':').next()).unwrap_or("replay").to_string();
        match make_base("replay".into(), "replay", base.to_string()) {
            None => out.inconclusive("replay base does not parse"),
            Some(b) => {
                ev.case(Some(util::hash_str(edited)));
                ev.sample(json!({"base": util::truncate(base, 400), "edited": util::truncate(edited, 400)}));
                if let Err(f) = judge(b.fp, edited, &kind) {
                    let what = format!("{}\n{}", f.what, explain(base, edited));
                    out.violation(&mut ev, &f.key, "json", &replay_body(base, edited, v["script"].as_str().unwrap_or(""), &f.key), &what);
                }
            }
        }
        std::process::exit(out.finish(&ev));
    }

    // ---- judge one structured fuzz input (artifact of fz_layout): `c10 --fuzz-input <file>`
    if let Some(path) = args.flag("fuzz-input") {
        let bytes = std::fs::read(path).unwrap_or_default();
        match layout::decode_fuzz_input(&bytes).and_then(|(base, script)| make_base("fuzz-input".into(), "fuzz", base).map(|b| (b, script))) {
            None => out.inconclusive("fuzz input does not decode to a base program that parses"),
            Some((b, script)) => {
                ev.case(Some(b.hash));
                ev.sample(json!({"base": util::truncate(&b.text, 400), "script": format!("{script:?}")}));
                if let Some((f, edited, desc)) = run_script(&b, &script, &out, None) {
                    report(&mut out, &mut ev, &b.text, &edited, &desc, &f);
                }
            }
        }
        std::process::exit(out.finish(&ev));
    }

    // ---- known findings: replay canonical inputs
    for e in out.known.open.clone() {
        let text = std::fs::read_to_string(&e.replay).unwrap_or_default();
        let v: serde_json::Value = serde_json::from_str(&text).unwrap_or(json!({}));
        let still = match (v["base"].as_str(), v["edited"].as_str()) {
            (Some(base), Some(edited)) => match make_base("known".into(), "known", base.to_string()) {
                Some(b) => {
                    let kind = e.key.split(':').next().unwrap_or("");
                    matches!(judge(b.fp, edited, kind), Err(f) if f.key == e.key)
                }
                None => false,
            },
            _ => false,
        };
        out.known_replayed(&e.key, still);
    }

    // ---- canonical inputs of findings that are no longer open: regression inputs, judged like any other case
    let kdir = vcore::verif_root().join("known").join(PROP);
    let open_replays: Vec<std::path::PathBuf> = out.known.open.iter().map(|e| e.replay.clone()).collect();
    if let Ok(rd) = std::fs::read_dir(&kdir) {
        let mut ps: Vec<_> = rd.flatten().map(|e| e.path()).filter(|p| p.extension().is_some_and(|e| e == "json") && !open_replays.contains(p)).collect();
        ps.sort();
        for p in ps {
            let v: serde_json::Value = serde_json::from_str(&std::fs::read_to_string(&p).unwrap_or_default()).unwrap_or(json!({}));
            let (Some(base), Some(edited)) = (v["base"].as_str(), v["edited"].as_str()) else { continue };
            let Some(b) = make_base(p.display().to_string(), "regression", base.to_string()) else { continue };
            let kind = v["signature"].as_str().and_then(|s| s.split(':').next()).unwrap_or("regression").to_string();
            ev.case(Some(util::hash_str(edited)));
            ev.class("regression:former-finding");
            if let Err(f) = judge(b.fp, edited, &kind) {
                report(&mut out, &mut ev, base, edited, &format!("regression input {}", p.display()), &f);
            }
        }
    }

    // ---- bases
    let n_gen = args.tier.pick(250usize, 4000usize);
    let bases = collect_bases(&args, &mut ev, n_gen);
    let mut by_class: BTreeMap<&str, u64> = BTreeMap::new();
    for b in &bases {
        *by_class.entry(b.class).or_insert(0) += 1;
    }
    ev.set("base_programs", json!(by_class));
    if bases.iter().filter(|b| b.class == "seed").count() < 20 {
        out.inconclusive("fewer than 20 repository seed files parse — the base set is not what this check was built for");
        std::process::exit(out.finish(&ev));
    }

    // ---- maintenance: (re)write the seed corpus of fz_layout (structured inputs), then stop
    if args.flag("emit-corpus").is_some() {
        let cdir = vcore::verif_root().join("corpus").join("fz_layout").join("seed");
        let _ = std::fs::remove_dir_all(&cdir);
        let _ = std::fs::create_dir_all(&cdir);
        let mut n = 0;
        for (i, b) in bases.iter().enumerate() {
            if b.class == "generated" && i % 8 != 0 || b.text.len() > 5000 {
                continue;
            }
            let script: Vec<RawEdit> = (0..3u64)
                .map(|k| {
                    let z = util::mix(b.hash ^ k);
                    RawEdit { kind: (z % layout::RAW_KINDS as u64) as u8, pos: (z >> 8) as u16, a: (z >> 24) as u8, b: (z >> 32) as u8 }
                })
                .collect();
            let _ = std::fs::write(cdir.join(format!("{:016x}", b.hash)), layout::encode_fuzz_input(&b.text, &script));
            n += 1;
        }
        println!("wrote {n} structured inputs to {}", cdir.display());
        std::process::exit(0);
    }

    // ---- leg 1: exhaustive positions on a fixed set of bases
    // fixed work: bases in order of size, up to a byte budget; every seed <= 2500 bytes, every generated program
    let (byte_budget, variants) = args.tier.pick((140_000usize, 1usize), (4_000_000usize, 3usize));
    let mut order: Vec<usize> = (0..bases.len()).collect();
    order.sort_by_key(|&i| (bases[i].text.len(), bases[i].hash));
    let mut chosen = Vec::new();
    let mut used = 0usize;
    // round-robin over classes so that every class is represented within the budget
    let mut per_class: BTreeMap<&str, Vec<usize>> = BTreeMap::new();
    for &i in &order {
        per_class.entry(bases[i].class).or_default().push(i);
    }
    let mut cursors: BTreeMap<&str, usize> = BTreeMap::new();
    loop {
        let mut progressed = false;
        for (c, v) in &per_class {
            let k = cursors.entry(c).or_insert(0);
            if *k < v.len() {
                let i = v[*k];
                if used + bases[i].text.len() <= byte_budget {
                    used += bases[i].text.len();
                    chosen.push(i);
                    *k += 1;
                    progressed = true;
                }
            }
        }
        if !progressed {
            break;
        }
    }
    chosen.sort();
    // evaluated in chunks of bases so that memory stays bounded in the thorough tier
    let mut model_disagrees = 0u64;
    let mut exhaustive_cases = 0u64;
    let mut next_sample_at = 400u64;
    for chunk in chosen.chunks(40) {
        let analyses: Vec<Option<Analysis>> = chunk.iter().map(|&i| Analysis::new(&bases[i].text)).collect();
        let mut work: Vec<(usize, Edit)> = Vec::new();
        for (k, a) in analyses.iter().enumerate() {
            let Some(a) = a else { continue };
            let agrees = a.model_agrees_with_lexer();
            if !agrees {
                model_disagrees += 1;
            }
            for e in layout::enumerate_edits(a, variants) {
                if matches!(e, Edit::Reindent { .. }) && !agrees {
                    ev.discard("reindent:indent-model-disagrees-with-lexer");
                    continue;
                }
                work.push((k, e));
            }
        }
        let results: Vec<CaseResult> = pool.install(|| {
            work.par_iter()
                .map(|(k, e)| run_one(&bases[chunk[*k]], analyses[*k].as_ref().unwrap(), e, &out))
                .collect()
        });
        for ((k, e), r) in work.iter().zip(results.iter()) {
            if let Some(key) = r.excluded {
                ev.exclude(key);
                continue;
            }
            if !r.applied {
                ev.discard("position-not-admissible");
                continue;
            }
            ev.case(r.nontrivial_id);
            ev.class(&format!("exhaustive:{}", r.kind));
            exhaustive_cases += 1;
            let b = &bases[chunk[*k]];
            if exhaustive_cases == next_sample_at {
                // a handful of samples spread over the sweep (positions 400, 2 000, 10 000, 50 000, 250 000)
                next_sample_at *= 5;
                if let Some(t) = layout::apply(analyses[*k].as_ref().unwrap(), e) {
                    ev.sample(json!({"leg": "exhaustive", "base": b.name, "edit": format!("{e:?}"), "edited_excerpt": excerpt(&b.text, &t)}));
                }
            }
            if let Some((f, edited)) = &r.fail {
                report(&mut out, &mut ev, &b.text, edited, &format!("{e:?} on {}", b.name), f);
            }
        }
    }
    ev.set("exhaustive_bases", json!(chosen.len()));
    ev.set("exhaustive_bases_bytes", json!(used));
    ev.set("indent_model_disagrees_with_lexer_bases", json!(model_disagrees));
    ev.exhaustive = Some(true);
    ev.set(
        "exhaustive_scope",
        json!(format!(
            "every admissible position of every edit kind ({} filler variant(s) per position) on {} fixed base programs; the script leg is sampled",
            variants,
            chosen.len()
        )),
    );

    // ---- leg 2: proptest scripts over all bases
    let n_scripts = args.tier.pick(12_000usize, 600_000usize);
    let strat = (any::<u16>(), proptest::collection::vec(layout::raw_edit_strategy(), 1..7));
    let mut runner = vcore::gen::runner(args.subseed(102));
    let chunk = 20_000usize;
    let mut done = 0usize;
    let mut script_samples = 0;
    while done < n_scripts {
        let n = chunk.min(n_scripts - done);
        let mut trees = vcore::gen::batch(&strat, &mut runner, n);
        let vals: Vec<(u16, Vec<RawEdit>)> = trees.iter().map(|t| t.current()).collect();
        let res: Vec<(ScriptStats, Option<(Fail, String, String)>)> = pool.install(|| {
            vals.par_iter()
                .map(|(bi, script)| {
                    let b = &bases[vcore::gen::idx(*bi, bases.len())];
                    let mut st = ScriptStats::default();
                    let f = run_script(b, script, &out, Some(&mut st));
                    st.final_text.clear();
                    (st, f)
                })
                .collect()
        });
        for (i, ((bi, _script), (st, f))) in vals.iter().zip(res.iter()).enumerate() {
            let b = &bases[vcore::gen::idx(*bi, bases.len())];
            for (k, n) in &st.excluded {
                ev.exclude_n(k, *n);
            }
            if st.steps == 0 {
                ev.discard("script-without-admissible-step");
                continue;
            }
            ev.case(st.nontrivial.then(|| util::hash_of(&(b.hash, &st.desc))));
            ev.class(&format!("script:{}-steps:{}", st.steps.min(6), b.class));
            for (k, n) in &st.kinds {
                ev.class_n(&format!("script-step:{k}"), *n);
            }
            ev.add("script_steps_inapplicable", st.inapplicable as u64);
            if script_samples < 3 && st.steps >= 2 && i % 977 == 5 {
                script_samples += 1;
                ev.sample(json!({"leg": "script", "base": b.name, "script": st.desc}));
            }
            if let Some((fail, _edited, _desc)) = f {
                if out.seen(&fail.key) || out.is_known(&fail.key) {
                    report(&mut out, &mut ev, &b.text, "", "", fail);
                    continue;
                }
                // shrink (same signature), then report the smallest script
                let key = fail.key.clone();
                let small = vcore::gen::shrink(&mut trees[i], 600, |(bi, s): &(u16, Vec<RawEdit>)| {
                    let b = &bases[vcore::gen::idx(*bi, bases.len())];
                    run_script(b, s, &out, None).is_some_and(|(f, _, _)| f.key == key)
                });
                let sb = &bases[vcore::gen::idx(small.0, bases.len())];
                if let Some((f2, edited, desc)) = run_script(sb, &small.1, &out, None) {
                    report(&mut out, &mut ev, &sb.text, &edited, &format!("{desc} on {}", sb.name), &f2);
                }
            }
        }
        done += n;
    }

    // ---- leg 3: libFuzzer target (thorough), saved corpus replay (quick, when present)
    fuzz_leg(&args, &mut out, &mut ev);

    std::process::exit(out.finish(&ev));
}

/// A few lines around the first difference between base and edited text.
fn excerpt(base: &str, edited: &str) -> String {
    let p = base.bytes().zip(edited.bytes()).take_while(|(a, b)| a == b).count();
    let start = edited[..floor_boundary(edited, p)].rfind('\n').map(|i| edited[..i].rfind('\n').map(|j| j + 1).unwrap_or(0)).unwrap_or(0);
    let mut end = (p + 120).min(edited.len());
    while !edited.is_char_boundary(end) {
        end += 1;
    }
    edited[start..end].to_string()
}

// ------------------------------------------------------------------------------------------------------------
// libFuzzer leg
// ------------------------------------------------------------------------------------------------------------

fn fuzz_leg(args: &Args, out: &mut Outcome, ev: &mut Evidence) {
    // committed corpus of the fuzz target, judged in-process with the same decoder and oracle
    let corpus = vcore::fuzzrun::corpus_files("fz_layout");
    let mut replayed = 0u64;
    for (name, bytes) in &corpus {
        let Some((base, script)) = layout::decode_fuzz_input(bytes) else {
            ev.discard("corpus-file-not-decodable");
            continue;
        };
        let Some(b) = make_base(format!("corpus:{name}"), "fuzz-corpus", base) else {
            ev.discard("corpus-base-does-not-parse");
            continue;
        };
        let mut st = ScriptStats::default();
        let f = run_script(&b, &script, out, Some(&mut st));
        if st.steps == 0 {
            ev.discard("script-without-admissible-step");
            continue;
        }
        replayed += 1;
        ev.case(st.nontrivial.then(|| util::hash_of(&(b.hash, &st.desc))));
        ev.class("fuzz-corpus-replay");
        if let Some((fail, edited, desc)) = f {
            report(out, ev, &b.text, &edited, &format!("{desc} on {}", b.name), &fail);
        }
    }
    ev.set("fz_layout_corpus_replayed", json!(replayed));
    let r = vcore::fuzzrun::run_target(
        "fz_layout",
        args,
        args.flag("fuzz-runs").and_then(|v| v.parse().ok()).unwrap_or(args.tier.pick(0u64, 1_200_000u64)),
        &out.known.open.iter().map(|e| e.key.clone()).collect::<Vec<_>>(),
    );
    ev.set("fz_layout", r.stats.clone());
    if let Some(why) = &r.infra {
        if args.tier == vcore::Tier::Thorough {
            out.inconclusive(&format!("fz_layout: {why}"));
        }
        return;
    }
    for (name, art) in &r.artifacts {
        // an artifact is a structured input of the fuzz target: decode it with the same decoder and judge it here
        let Some((base, script)) = layout::decode_fuzz_input(art) else { continue };
        let Some(b) = make_base(format!("fuzz:{name}"), "fuzz", base) else { continue };
        if let Some((f, edited, desc)) = run_script(&b, &script, out, None) {
            report(out, ev, &b.text, &edited, &format!("fz_layout {name}: {desc}"), &f);
        } else {
            out.inconclusive(&format!("fz_layout left artifact {name} that the in-process oracle accepts: {}", util::truncate(&r.log_tail, 400)));
        }
    }
}
