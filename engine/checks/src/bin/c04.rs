//! C04 — arithmetic follows the documented Python-style semantics for all operands.
//!
//! Legs
//! 1. kernel leg (in-process): proptest-generated operand pairs from edge-biased pools, all four operand-kind
//!    combinations (int/int, int/float, float/int, float/float), `/ // %`; every public entry point of
//!    `incan_stdlib::num` and the `incan_core::py_*_impl` kernels are called under `catch` and judged against an
//!    independent reference (`vcore::pymodel`: i128 integers, exact integer-arithmetic fmod + CPython's float_rem,
//!    bit-level floor). Zero divisors must panic with exactly `ZeroDivisionError: float division by zero`.
//! 2. parity leg: the core kernels and the duplicated stdlib kernels must agree bit-for-bit.
//! 3. end-to-end leg (farm): generated Incan programs with the operands as typed variables or literals, binary and
//!    compound-assignment forms, real `incan build`, run, stdout tokens compared with the same reference; each
//!    zero-divisor case is the last statement of its own program (prints before it, panic text, exit status).
//! 4. thorough only: the reference itself is cross-checked against CPython (mismatch = engine bug, exit 2).

use incan_stdlib::num as rt;
use proptest::prelude::*;
use proptest::sample::select;
use proptest::strategy::ValueTree;
use rayon::prelude::*;
use serde_json::{json, Value};
use vcore::farm::{Farm, FarmOut, Mode, Project};
use vcore::pymodel as py;
use vcore::{util, Args, Evidence, Outcome};

const ZDE: &str = "ZeroDivisionError: float division by zero";

// ------------------------------------------------------------------------------------------------
// operands
// ------------------------------------------------------------------------------------------------

#[derive(Clone, Copy, Debug, PartialEq)]
enum Num {
    I(i64),
    F(f64),
}

impl Num {
    fn is_zero(self) -> bool {
        match self {
            Num::I(v) => v == 0,
            Num::F(v) => v == 0.0,
        }
    }
    fn as_f(self) -> f64 {
        match self {
            Num::I(v) => v as f64,
            Num::F(v) => v,
        }
    }
    fn kind(self) -> char {
        match self {
            Num::I(_) => 'I',
            Num::F(_) => 'F',
        }
    }
    fn to_json(self) -> Value {
        match self {
            Num::I(v) => json!({"int": v.to_string()}),
            Num::F(v) => json!({"float_bits": format!("{:#018x}", v.to_bits()), "approx": format!("{v:e}")}),
        }
    }
    fn from_json(v: &Value) -> Option<Num> {
        if let Some(s) = v.get("int").and_then(|x| x.as_str()) {
            return s.parse::<i64>().ok().map(Num::I);
        }
        let s = v.get("float_bits")?.as_str()?;
        let bits = u64::from_str_radix(s.trim_start_matches("0x"), 16).ok()?;
        Some(Num::F(f64::from_bits(bits)))
    }
    /// Incan source text of the value as an expression without parentheses (unary minus only).
    fn literal(self) -> String {
        match self {
            Num::I(i64::MIN) => "-9223372036854775807 - 1".to_string(),
            Num::I(v) => v.to_string(),
            Num::F(v) => {
                // shortest round-trip digits in exponent form: `d.ddde-N` (the lexer accepts `1e308`, `2.5e-3`)
                let s = format!("{:e}", v.abs());
                let s = if s.contains('.') { s } else { s.replacen('e', ".0e", 1) };
                if v.is_sign_negative() {
                    format!("-{s}")
                } else {
                    s
                }
            }
        }
    }
    fn hash_key(self) -> (u8, u64) {
        match self {
            Num::I(v) => (0, v as u64),
            Num::F(v) => (1, v.to_bits()),
        }
    }
}

#[derive(Clone, Copy, Debug, PartialEq, Eq, Hash)]
enum Op {
    Div,
    Floor,
    Mod,
}

impl Op {
    const ALL: [Op; 3] = [Op::Div, Op::Floor, Op::Mod];
    fn sym(self) -> &'static str {
        match self {
            Op::Div => "/",
            Op::Floor => "//",
            Op::Mod => "%",
        }
    }
    fn from_sym(s: &str) -> Option<Op> {
        Op::ALL.into_iter().find(|o| o.sym() == s)
    }
}

#[derive(Clone, Copy, Debug, PartialEq)]
struct Pair {
    a: Num,
    b: Num,
}

impl Pair {
    fn kind(&self) -> String {
        format!("{}{}", self.a.kind(), self.b.kind())
    }
}

// ------------------------------------------------------------------------------------------------
// reference
// ------------------------------------------------------------------------------------------------

#[derive(Clone, Copy, Debug, PartialEq)]
enum Exp {
    Int(i128),
    Float(f64),
    ZeroDiv,
    /// `i64::MIN // -1`: excluded by the statement
    OutOfDomain,
}

fn reference(op: Op, p: Pair) -> Exp {
    if p.b.is_zero() {
        return Exp::ZeroDiv;
    }
    match (p.a, p.b) {
        (Num::I(a), Num::I(b)) => match op {
            Op::Div => Exp::Float(a as f64 / b as f64),
            Op::Floor => {
                if a == i64::MIN && b == -1 {
                    Exp::OutOfDomain
                } else {
                    Exp::Int(py::int_divmod(a, b).0)
                }
            }
            Op::Mod => Exp::Int(py::int_divmod(a, b).1),
        },
        _ => {
            let (a, b) = (p.a.as_f(), p.b.as_f());
            match op {
                Op::Div => Exp::Float(a / b),
                Op::Floor => Exp::Float(py::floor_exact(a / b)),
                Op::Mod => Exp::Float(py::float_rem(a, b)),
            }
        }
    }
}

/// Invariants the statement spells out, checked on the *reference* (an engine self-check) — returns a
/// description when the reference itself is broken.
fn reference_selfcheck(p: Pair) -> Option<String> {
    if p.b.is_zero() {
        return None;
    }
    match (p.a, p.b) {
        (Num::I(a), Num::I(b)) => {
            let (q, r) = py::int_divmod(a, b);
            let (a, b) = (a as i128, b as i128);
            if q * b + r != a {
                return Some(format!("int identity broken for {a} {b}"));
            }
            if r != 0 && (r < 0) != (b < 0) {
                return Some(format!("int sign rule broken for {a} {b}"));
            }
            if r.abs() >= b.abs() {
                return Some(format!("int remainder magnitude broken for {a} {b}"));
            }
            // floor: q <= a/b < q+1  <=>  q*b <= a < (q+1)*b for b > 0, reversed for b < 0
            let ok = if b > 0 { q * b <= a && a < (q + 1) * b } else { q * b >= a && a > (q + 1) * b };
            if !ok {
                return Some(format!("int floor broken for {a} {b}"));
            }
            None
        }
        _ => {
            let (a, b) = (p.a.as_f(), p.b.as_f());
            let m = py::fmod_exact(a, b);
            if m.to_bits() != (a % b).to_bits() {
                return Some(format!("fmod_exact({a:e},{b:e}) = {m:e} but libm fmod gives {:e}", a % b));
            }
            let r = py::float_rem(a, b);
            if r != 0.0 && (r < 0.0) != (b < 0.0) {
                return Some(format!("float sign rule broken for {a:e} {b:e}"));
            }
            if !(r.abs() <= b.abs()) {
                return Some(format!("float remainder magnitude broken for {a:e} {b:e}"));
            }
            let q = a / b;
            if py::floor_exact(q).to_bits() != q.floor().to_bits() {
                return Some(format!("floor_exact({q:e}) differs from libm floor"));
            }
            None
        }
    }
}

// ------------------------------------------------------------------------------------------------
// code under test
// ------------------------------------------------------------------------------------------------

#[derive(Clone, Debug, PartialEq)]
enum Got {
    Int(i64),
    Float(f64),
    Panic(String),
}

impl Got {
    fn show(&self) -> String {
        match self {
            Got::Int(v) => format!("int {v}"),
            Got::Float(v) => format!("float {v:e} (bits {:#018x})", v.to_bits()),
            Got::Panic(m) => format!("panic {m:?}"),
        }
    }
    fn same_bits(&self, o: &Got) -> bool {
        match (self, o) {
            (Got::Int(x), Got::Int(y)) => x == y,
            (Got::Float(x), Got::Float(y)) => x.to_bits() == y.to_bits(),
            (Got::Panic(x), Got::Panic(y)) => util::panic_text(x) == util::panic_text(y),
            _ => false,
        }
    }
}

fn gi(f: impl FnOnce() -> i64) -> Got {
    match util::catch(f) {
        Ok(v) => Got::Int(v),
        Err(m) => Got::Panic(m),
    }
}
fn gf(f: impl FnOnce() -> f64) -> Got {
    match util::catch(f) {
        Ok(v) => Got::Float(v),
        Err(m) => Got::Panic(m),
    }
}

/// (entry point name, result, is_core_kernel). Core kernels document `b != 0` as a precondition and are not
/// called with a zero divisor; neither kernel family is called with the excluded `i64::MIN // -1`.
fn call_all(op: Op, p: Pair) -> Vec<(&'static str, Got, bool)> {
    let mut v = Vec::with_capacity(4);
    let nz = !p.b.is_zero();
    match (p.a, p.b) {
        (Num::I(a), Num::I(b)) => match op {
            Op::Div => v.push(("py_div<i64,i64>", gf(|| rt::py_div(a, b)), false)),
            Op::Floor => {
                v.push(("py_floor_div<i64,i64>", gi(|| rt::py_floor_div(a, b)), false));
                v.push(("py_floor_div_i64", gi(|| rt::py_floor_div_i64(a, b)), false));
                if nz {
                    v.push(("core::py_floor_div_i64_impl", gi(|| incan_core::py_floor_div_i64_impl(a, b)), true));
                }
            }
            Op::Mod => {
                v.push(("py_mod<i64,i64>", gi(|| rt::py_mod(a, b)), false));
                v.push(("py_mod_i64", gi(|| rt::py_mod_i64(a, b)), false));
                if nz {
                    v.push(("core::py_mod_i64_impl", gi(|| incan_core::py_mod_i64_impl(a, b)), true));
                }
            }
        },
        (Num::I(a), Num::F(b)) => match op {
            Op::Div => v.push(("py_div<i64,f64>", gf(|| rt::py_div(a, b)), false)),
            Op::Floor => {
                v.push(("py_floor_div<i64,f64>", gf(|| rt::py_floor_div(a, b)), false));
                v.push(("py_floor_div_f64", gf(|| rt::py_floor_div_f64(a as f64, b)), false));
            }
            Op::Mod => {
                v.push(("py_mod<i64,f64>", gf(|| rt::py_mod(a, b)), false));
                v.push(("py_mod_f64", gf(|| rt::py_mod_f64(a as f64, b)), false));
                if nz {
                    v.push(("core::py_mod_f64_impl", gf(|| incan_core::py_mod_f64_impl(a as f64, b)), true));
                }
            }
        },
        (Num::F(a), Num::I(b)) => match op {
            Op::Div => v.push(("py_div<f64,i64>", gf(|| rt::py_div(a, b)), false)),
            Op::Floor => {
                v.push(("py_floor_div<f64,i64>", gf(|| rt::py_floor_div(a, b)), false));
                v.push(("py_floor_div_f64", gf(|| rt::py_floor_div_f64(a, b as f64)), false));
            }
            Op::Mod => {
                v.push(("py_mod<f64,i64>", gf(|| rt::py_mod(a, b)), false));
                v.push(("py_mod_f64", gf(|| rt::py_mod_f64(a, b as f64)), false));
                if nz {
                    v.push(("core::py_mod_f64_impl", gf(|| incan_core::py_mod_f64_impl(a, b as f64)), true));
                }
            }
        },
        (Num::F(a), Num::F(b)) => match op {
            Op::Div => v.push(("py_div<f64,f64>", gf(|| rt::py_div(a, b)), false)),
            Op::Floor => {
                v.push(("py_floor_div<f64,f64>", gf(|| rt::py_floor_div(a, b)), false));
                v.push(("py_floor_div_f64", gf(|| rt::py_floor_div_f64(a, b)), false));
            }
            Op::Mod => {
                v.push(("py_mod<f64,f64>", gf(|| rt::py_mod(a, b)), false));
                v.push(("py_mod_f64", gf(|| rt::py_mod_f64(a, b)), false));
                if nz {
                    v.push(("core::py_mod_f64_impl", gf(|| incan_core::py_mod_f64_impl(a, b)), true));
                }
            }
        },
    }
    v
}

struct Fail {
    key: String,
    what: String,
}

/// Compare one observed result with the expectation. `who` names the entry point.
fn judge_value(who: &str, op: Op, p: Pair, exp: Exp, got: &Got) -> Option<Fail> {
    let ctx = || format!("{} {} {}  [{}]", show_num(p.a), op.sym(), show_num(p.b), who);
    match (exp, got) {
        (Exp::OutOfDomain, _) => None,
        (Exp::ZeroDiv, Got::Panic(m)) => {
            if util::panic_text(m) == ZDE {
                None
            } else {
                Some(Fail { key: format!("{who}:zero-divisor-wrong-error"), what: format!("{}: panic text {:?}, documented {:?}", ctx(), m, ZDE) })
            }
        }
        (Exp::ZeroDiv, g) => Some(Fail { key: format!("{who}:zero-divisor-not-raised"), what: format!("{}: returned {} instead of stopping with {ZDE}", ctx(), g.show()) }),
        (_, Got::Panic(m)) => Some(Fail { key: format!("{who}:panic"), what: format!("{}: in-domain operands panicked: {m}", ctx()) }),
        (Exp::Int(e), Got::Int(g)) => {
            if *g as i128 == e {
                None
            } else {
                let class = if op == Op::Mod {
                    let b = match p.b {
                        Num::I(b) => b,
                        _ => 0,
                    };
                    if *g != 0 && (*g < 0) != (b < 0) {
                        "wrong-sign"
                    } else {
                        "wrong-value"
                    }
                } else {
                    "wrong-value"
                };
                Some(Fail { key: format!("{who}:{class}"), what: format!("{}: got {g}, Python gives {e}", ctx()) })
            }
        }
        (Exp::Float(e), Got::Float(g)) => {
            if py::same_f64(e, *g) {
                None
            } else {
                let b = p.b.as_f();
                let class = if op == Op::Mod && *g != 0.0 && (*g < 0.0) != (b < 0.0) {
                    "wrong-sign"
                } else if op == Op::Mod && !(g.abs() <= b.abs()) {
                    "magnitude"
                } else {
                    "wrong-value"
                };
                Some(Fail {
                    key: format!("{who}:{class}"),
                    what: format!("{}: got {:e} (bits {:#018x}), reference {:e} (bits {:#018x})", ctx(), g, g.to_bits(), e, e.to_bits()),
                })
            }
        }
        (Exp::Int(_), g) => Some(Fail { key: format!("{who}:result-kind"), what: format!("{}: expected an int, got {}", ctx(), g.show()) }),
        (Exp::Float(_), g) => Some(Fail { key: format!("{who}:result-kind"), what: format!("{}: expected a float, got {}", ctx(), g.show()) }),
    }
}

fn show_num(n: Num) -> String {
    match n {
        Num::I(v) => format!("{v}"),
        Num::F(v) => format!("{v:e}f"),
    }
}

/// Judge one pair under one operator on every entry point + parity. Returns failures.
fn judge_kernel(op: Op, p: Pair) -> Vec<Fail> {
    let exp = reference(op, p);
    if exp == Exp::OutOfDomain {
        return Vec::new();
    }
    let mut fails = Vec::new();
    let results = call_all(op, p);
    for (who, got, _) in &results {
        if let Some(f) = judge_value(who, op, p, exp, got) {
            fails.push(f);
        }
    }
    // parity: the core kernel against every stdlib entry point for the same operands
    if let Some((cname, cgot, _)) = results.iter().find(|r| r.2) {
        for (who, got, is_core) in &results {
            if !*is_core && !got.same_bits(cgot) {
                fails.push(Fail {
                    key: format!("parity:{cname}"),
                    what: format!("{} {} {}: {cname} -> {} but {who} -> {}", show_num(p.a), op.sym(), show_num(p.b), cgot.show(), got.show()),
                });
            }
        }
    }
    // statement identity on the observed results themselves: a == (a // b) * b + a % b
    if let (Num::I(a), Num::I(b)) = (p.a, p.b) {
        if op == Op::Mod && b != 0 && !(a == i64::MIN && b == -1) {
            if let (Got::Int(q), Got::Int(r)) = (gi(|| rt::py_floor_div(a, b)), gi(|| rt::py_mod(a, b))) {
                if (q as i128) * (b as i128) + (r as i128) != a as i128 {
                    fails.push(Fail { key: "identity:a==(a//b)*b+a%b".into(), what: format!("a={a} b={b} q={q} r={r}") });
                }
            }
        }
    }
    fails
}

// ------------------------------------------------------------------------------------------------
// generators
// ------------------------------------------------------------------------------------------------

const P53: i64 = 1 << 53;
const INT_POOL: &[i64] = &[
    i64::MIN,
    i64::MIN + 1,
    -(1 << 62),
    -P53 - 1,
    -P53,
    -P53 + 1,
    -(1 << 31) - 1,
    -(1 << 31),
    -10,
    -7,
    -3,
    -2,
    -1,
    0,
    1,
    2,
    3,
    7,
    10,
    (1 << 31) - 1,
    1 << 31,
    (1 << 31) + 1,
    P53 - 1,
    P53,
    P53 + 1,
    1 << 62,
    i64::MAX - 1,
    i64::MAX,
];

fn float_pool() -> Vec<f64> {
    let base = [
        0.0,
        1.0,
        0.5,
        2.0,
        3.0,
        7.0,
        0.1,
        0.3,
        4.5,
        1e-20,
        1e16,
        1e22,
        5e-324,                    // smallest subnormal
        2.225073858507201e-308,    // largest subnormal
        f64::MIN_POSITIVE,
        9007199254740992.0,        // 2^53
        9007199254740994.0,
        9223372036854775808.0,     // 2^63
        1e308,
        f64::MAX,
        f64::EPSILON,
    ];
    let mut v = Vec::new();
    for x in base {
        v.push(x);
        v.push(-x);
    }
    v
}

fn make_finite(bits: u64) -> f64 {
    let mut b = bits;
    if (b >> 52) & 0x7ff == 0x7ff {
        b &= !(1u64 << 52);
    }
    f64::from_bits(b)
}

fn int_s() -> BoxedStrategy<i64> {
    prop_oneof![
        4 => select(INT_POOL),
        3 => -20i64..=20,
        2 => any::<i64>(),
        1 => (select(INT_POOL), -3i64..=3).prop_map(|(p, d)| p.wrapping_add(d)),
        1 => (0u32..63, any::<bool>(), -2i64..=2).prop_map(|(k, neg, d)| {
            let v = (1i64 << k).wrapping_add(d);
            if neg { v.wrapping_neg() } else { v }
        }),
        1 => -100_000i64..=100_000,
    ]
    .boxed()
}

fn float_s() -> BoxedStrategy<f64> {
    prop_oneof![
        3 => select(float_pool()),
        3 => any::<u64>().prop_map(make_finite),
        2 => (-20i64..=20).prop_map(|v| v as f64),
        2 => (-4000i64..=4000, select(vec![2.0, 4.0, 8.0, 10.0, 3.0, 7.0, 1000.0])).prop_map(|(n, d)| n as f64 / d),
        1 => (select(float_pool()), -3i64..=3).prop_map(|(p, d)| make_finite(p.to_bits().wrapping_add(d as u64))),
        1 => int_s().prop_map(|v| v as f64),
        // moderate exponents so that quotients are neither 0 nor inf and fmod has real work to do
        2 => (any::<u64>(), 963u64..1083, any::<bool>()).prop_map(|(m, e, neg)| {
            f64::from_bits((m & ((1u64 << 52) - 1)) | (e << 52) | ((neg as u64) << 63))
        }),
    ]
    .boxed()
}

fn num_s(kind: char) -> BoxedStrategy<Num> {
    if kind == 'I' {
        int_s().prop_map(Num::I).boxed()
    } else {
        float_s().prop_map(Num::F).boxed()
    }
}

/// a := b * k (+ d): exact multiples and near multiples (falls back to `b` when the product leaves the domain).
fn multiple_of(b: Num, k: i64, d: i64, a_kind: char) -> Num {
    match (a_kind, b) {
        ('I', Num::I(b)) => Num::I(b.checked_mul(k).and_then(|v| v.checked_add(d)).unwrap_or(b)),
        ('I', Num::F(b)) => {
            let v = b * k as f64 + d as f64;
            if v.is_finite() && v.abs() < 9.2e18 {
                Num::I(v as i64)
            } else {
                Num::I(k)
            }
        }
        (_, b) => {
            let v = b.as_f() * k as f64;
            let v = if v.is_finite() { v } else { b.as_f() };
            Num::F(make_finite(v.to_bits().wrapping_add(d as u64)))
        }
    }
}

fn pair_s() -> BoxedStrategy<(Pair, &'static str)> {
    let kinds = select(vec![('I', 'I'), ('I', 'F'), ('F', 'I'), ('F', 'F')]);
    kinds
        .prop_flat_map(|(ka, kb)| {
            prop_oneof![
                5 => (num_s(ka), num_s(kb)).prop_map(|(a, b)| (Pair { a, b }, "independent")),
                2 => (num_s(kb), -12i64..=12).prop_map(move |(b, k)| (Pair { a: multiple_of(b, k, 0, ka), b }, "exact-multiple")),
                1 => (num_s(kb), -12i64..=12, select(vec![-1i64, 1])).prop_map(move |(b, k, d)| (Pair { a: multiple_of(b, k, d, ka), b }, "near-multiple")),
                1 => (num_s(ka), any::<bool>()).prop_map(move |(a, neg)| {
                    let b = if kb == 'I' { Num::I(0) } else { Num::F(if neg { -0.0 } else { 0.0 }) };
                    (Pair { a, b }, "zero-divisor")
                }),
                1 => (num_s(kb), any::<bool>()).prop_map(move |(b, neg)| {
                    let a = match (ka, b) {
                        ('I', Num::I(v)) => Num::I(if neg { v.wrapping_neg() } else { v }),
                        ('I', Num::F(v)) => Num::I(if v.abs() < 9.2e18 { (if neg { -v } else { v }) as i64 } else { 1 }),
                        (_, v) => Num::F(if neg { -v.as_f() } else { v.as_f() }),
                    };
                    (Pair { a, b }, "equal-magnitude")
                }),
            ]
        })
        .boxed()
}

fn is_boundary_int(v: i64) -> bool {
    INT_POOL.iter().any(|p| (*p as i128 - v as i128).abs() <= 3) && v.unsigned_abs() > 100
}

/// Non-triviality rule (DESIGN.md C04).
fn nontrivial(p: Pair) -> bool {
    if p.b.is_zero() {
        return true;
    }
    let (fa, fb) = (p.a.as_f(), p.b.as_f());
    let signs_differ = (fa < 0.0) != (fb < 0.0) && fa != 0.0;
    let exact = match (p.a, p.b) {
        (Num::I(a), Num::I(b)) => (a as i128) % (b as i128) == 0,
        _ => py::fmod_exact(fa, fb) == 0.0,
    };
    let big = fa.abs() >= 9007199254740992.0 || fb.abs() >= 9007199254740992.0;
    let boundary = |n: Num| match n {
        Num::I(v) => is_boundary_int(v),
        Num::F(v) => v != 0.0 && (v.abs() < f64::MIN_POSITIVE || v.abs() > 1e300 || v.abs() == f64::MIN_POSITIVE),
    };
    signs_differ || exact || big || boundary(p.a) || boundary(p.b)
}

fn pair_json(p: Pair) -> Value {
    json!({"a": p.a.to_json(), "b": p.b.to_json()})
}

fn case_hash(op: Op, p: Pair) -> u64 {
    util::hash_of(&(op, p.a.hash_key(), p.b.hash_key()))
}

// ------------------------------------------------------------------------------------------------
// end-to-end programs
// ------------------------------------------------------------------------------------------------

#[derive(Clone, Copy, Debug, PartialEq, Eq, Hash)]
enum Form {
    /// `a: T = ..; b: U = ..; print(a op b)`
    Vars,
    /// `print(<literal> op <literal>)`
    Literals,
    /// `mut x: T = a; x op= b; print(x)` (only where the result type equals T)
    Compound,
}

impl Form {
    fn name(self) -> &'static str {
        match self {
            Form::Vars => "vars",
            Form::Literals => "literals",
            Form::Compound => "compound",
        }
    }
    fn from_name(s: &str) -> Option<Form> {
        [Form::Vars, Form::Literals, Form::Compound].into_iter().find(|f| f.name() == s)
    }
}

/// Known finding (root cause + construct): integer literals are emitted unsuffixed and `let` drops the `int`
/// annotation, so an int literal (or a variable bound to one) whose only use is the float promotion `(x) as f64`
/// is typed i32 by rustc's fallback; magnitudes beyond i32 then fail to build.
const K_I32: &str = "e2e:untyped-int-i32-fallback";

#[derive(Clone, Copy, Debug)]
struct Stmt {
    p: Pair,
    op: Op,
    form: Form,
    /// operands are parameters of a generated function (`def f(a: int, b: float)`) called with literal arguments
    in_fn: bool,
}

impl Stmt {
    /// Is an int operand promoted to float in this statement (`int / int`, or any mixed int/float operation)?
    fn promoted_ints(&self) -> Vec<i64> {
        match (self.p.a, self.p.b) {
            (Num::I(a), Num::I(b)) if self.op == Op::Div => vec![a, b],
            (Num::I(a), Num::F(_)) => vec![a],
            (Num::F(_), Num::I(b)) => vec![b],
            _ => vec![],
        }
    }
    /// The construct of known finding K_I32: a promoted int operand outside i32 written as a literal or as a
    /// local variable initialised with a literal (function parameters are typed i64 and are fine).
    fn is_i32_fallback_construct(&self) -> bool {
        !self.in_fn && self.promoted_ints().iter().any(|v| i32::try_from(*v).is_err())
    }
}

fn ty_name(n: Num) -> &'static str {
    match n {
        Num::I(_) => "int",
        Num::F(_) => "float",
    }
}

/// The compound form needs `typeof(x op b) == typeof(x)`.
fn compound_ok(p: Pair, op: Op) -> bool {
    match (p.a, p.b) {
        (Num::I(_), Num::I(_)) => op != Op::Div,
        (Num::I(_), Num::F(_)) => false,
        (Num::F(_), _) => true,
    }
}

fn stmt_json(s: &Stmt) -> Value {
    json!({"a": s.p.a.to_json(), "b": s.p.b.to_json(), "op": s.op.sym(), "form": s.form.name(), "in_fn": s.in_fn})
}

fn stmt_from_json(v: &Value) -> Option<Stmt> {
    Some(Stmt {
        p: Pair { a: Num::from_json(&v["a"])?, b: Num::from_json(&v["b"])? },
        op: Op::from_sym(v["op"].as_str()?)?,
        form: Form::from_name(v["form"].as_str()?)?,
        in_fn: v["in_fn"].as_bool().unwrap_or(false),
    })
}

/// Render a program: one printed line per statement, in order.
fn render(stmts: &[Stmt]) -> String {
    let mut fns = String::new();
    let mut s = String::from("def main() -> None:\n");
    for (i, st) in stmts.iter().enumerate() {
        let (a, b) = (st.p.a, st.p.b);
        let sym = st.op.sym();
        if st.in_fn && st.form != Form::Literals {
            fns += &format!("def f{i}(a: {}, b: {}) -> None:\n", ty_name(a), ty_name(b));
            if st.form == Form::Compound {
                fns += &format!("    mut x: {} = a\n    x {sym}= b\n    print(x)\n\n", ty_name(a));
            } else {
                fns += &format!("    print(a {sym} b)\n\n");
            }
            s += &format!("    f{i}({}, {})\n", a.literal(), b.literal());
            continue;
        }
        match st.form {
            Form::Vars => {
                s += &format!("    a{i}: {} = {}\n", ty_name(a), a.literal());
                s += &format!("    b{i}: {} = {}\n", ty_name(b), b.literal());
                s += &format!("    print(a{i} {sym} b{i})\n");
            }
            Form::Literals => {
                s += &format!("    print({} {sym} {})\n", a.literal(), b.literal());
            }
            Form::Compound => {
                s += &format!("    mut x{i}: {} = {}\n", ty_name(a), a.literal());
                s += &format!("    b{i}: {} = {}\n", ty_name(b), b.literal());
                s += &format!("    x{i} {sym}= b{i}\n");
                s += &format!("    print(x{i})\n");
            }
        }
    }
    if stmts.is_empty() {
        s += "    pass\n";
    }
    fns + &s
}

/// Operands that can be written as a literal of the Literals form without parentheses (i64::MIN needs `- 1`).
fn literal_form_ok(p: Pair) -> bool {
    p.a != Num::I(i64::MIN) && p.b != Num::I(i64::MIN)
}

fn who_of(st: &Stmt) -> String {
    format!("e2e:{}{}:{}{}", st.form.name(), if st.in_fn && st.form != Form::Literals { "-fn" } else { "" }, st.p.kind(), st.op.sym())
}

/// Judge the output of one program. Every statement but possibly the last is in-domain with a non-zero
/// divisor; a zero-divisor statement may only be the last one.
fn judge_program(stmts: &[Stmt], o: &FarmOut) -> Result<Vec<(usize, Fail)>, String> {
    if let Some(e) = &o.infra_error {
        return Err(e.clone());
    }
    let build = o.build.as_ref().ok_or("no build result")?;
    let mut fails = Vec::new();
    if !build.ok() {
        let text = format!("{}\n{}", build.stdout, build.stderr);
        let key = if text.contains("literal out of range for `i32`") && stmts.iter().any(|s| s.is_i32_fallback_construct()) {
            K_I32.to_string()
        } else if stmts.len() == 1 {
            format!("{}:build-failed", who_of(&stmts[0]))
        } else {
            "e2e:build-failed".to_string()
        };
        fails.push((usize::MAX, Fail { key, what: format!("incan build failed:\n{}", util::truncate(&text, 2500)) }));
        return Ok(fails);
    }
    let run = o.run.as_ref().ok_or("no run result")?;
    if run.timed_out {
        return Err("watchdog: generated binary".into());
    }
    let lines: Vec<&str> = run.stdout.lines().collect();
    let zero_last = stmts.last().is_some_and(|s| s.p.b.is_zero());
    let n_print = if zero_last { stmts.len() - 1 } else { stmts.len() };
    for (i, st) in stmts.iter().enumerate().take(n_print) {
        let who = who_of(st);
        let exp = reference(st.op, st.p);
        let Some(line) = lines.get(i) else {
            fails.push((i, Fail { key: format!("{who}:missing-output"), what: format!("statement {i} printed nothing; run status {:?}, stderr: {}", run.status, util::truncate(&run.stderr, 600)) }));
            break;
        };
        let got = match exp {
            Exp::Int(_) => match line.trim().parse::<i64>() {
                Ok(v) => Got::Int(v),
                Err(_) => Got::Panic(format!("unparsable int output {line:?}")),
            },
            _ => match line.trim().parse::<f64>() {
                Ok(v) => Got::Float(v),
                Err(_) => Got::Panic(format!("unparsable float output {line:?}")),
            },
        };
        if let Got::Panic(m) = &got {
            fails.push((i, Fail { key: format!("{who}:output-kind"), what: format!("{} {} {}: {m}", show_num(st.p.a), st.op.sym(), show_num(st.p.b)) }));
            continue;
        }
        if let Some(f) = judge_value(&who, st.op, st.p, exp, &got) {
            fails.push((i, f));
        }
    }
    if zero_last {
        let st = stmts.last().unwrap();
        let who = who_of(st);
        let i = stmts.len() - 1;
        if lines.len() > n_print {
            fails.push((i, Fail { key: format!("{who}:zero-divisor-not-raised"), what: format!("program printed {:?} for a zero divisor", lines[n_print]) }));
        } else if run.status == Some(0) {
            fails.push((i, Fail { key: format!("{who}:zero-divisor-exit-0"), what: "program with a zero divisor ended with status 0".into() }));
        } else if !run.stderr.lines().any(|l| l.trim() == ZDE) {
            fails.push((i, Fail { key: format!("{who}:zero-divisor-wrong-error"), what: format!("stderr does not contain the line {ZDE:?}:\n{}", util::truncate(&run.stderr, 800)) }));
        }
    } else if run.status != Some(0) {
        fails.push((usize::MAX, Fail { key: "e2e:nonzero-exit".into(), what: format!("status {:?} signal {:?} stderr: {}", run.status, run.signal, util::truncate(&run.stderr, 800)) }));
    } else if lines.len() != n_print {
        fails.push((usize::MAX, Fail { key: "e2e:extra-output".into(), what: format!("{} lines printed, {} expected", lines.len(), n_print) }));
    }
    Ok(fails)
}

fn program_json(stmts: &[Stmt]) -> Value {
    json!({"leg": "e2e", "statements": stmts.iter().map(stmt_json).collect::<Vec<_>>(), "source": render(stmts)})
}

/// Report one failure of a (possibly isolated) program. `strict`: known findings become KNOWN-FINDING lines
/// (replay mode); otherwise a known signature can only come from a generator bug and is reported like any other.
fn report_program_fail(out: &mut Outcome, ev: &mut Evidence, stmts: &[Stmt], f: &Fail, strict: bool) {
    if strict && out.is_known(&f.key) {
        out.known_replayed(&f.key, true);
        return;
    }
    if out.seen(&f.key) {
        ev.violations += 1;
        return;
    }
    let body = serde_json::to_string_pretty(&program_json(stmts)).unwrap();
    out.violation(ev, &f.key, "json", &body, &format!("{}\n--- program ---\n{}", f.what, util::truncate(&render(stmts), 1500)));
}

/// Two signatures name the same failure class (a build failure is keyed by statement only once it is isolated).
fn same_class(a: &str, b: &str) -> bool {
    a == b || (a.contains("build-failed") && b.contains("build-failed"))
}

/// Manual shrinking of a failing program: the named statement alone if that still fails the same way, otherwise
/// bisection (both halves are built in parallel; a zero-divisor statement stays the last one of its half).
fn shrink_program(farm: &Farm, stmts: &[Stmt], idx: usize, key: &str) -> (Vec<Stmt>, Option<Fail>) {
    let fails_with = |cand: &[Stmt], o: &FarmOut| -> Option<Fail> { judge_program(cand, o).ok()?.into_iter().map(|(_, f)| f).find(|f| same_class(&f.key, key)) };
    if idx != usize::MAX && stmts.len() > 1 {
        let single = vec![stmts[idx]];
        let o = farm.run_many(&[Project::single("c04min", &render(&single))], Mode::BuildRun);
        if let Some(f) = fails_with(&single, &o[0]) {
            return (single, Some(f));
        }
    }
    let mut cur: Vec<Stmt> = stmts.to_vec();
    let mut last: Option<Fail> = None;
    while cur.len() > 1 {
        let (l, r) = cur.split_at(cur.len() / 2);
        let o = farm.run_many(&[Project::single("c04bl", &render(l)), Project::single("c04br", &render(r))], Mode::BuildRun);
        if let Some(f) = fails_with(l, &o[0]) {
            last = Some(f);
            cur = l.to_vec();
        } else if let Some(f) = fails_with(r, &o[1]) {
            last = Some(f);
            cur = r.to_vec();
        } else {
            break;
        }
    }
    (cur, last)
}

/// Run programs on the farm and report failures (one report per distinct signature, shrunk first).
fn run_programs(farm: &Farm, programs: &[Vec<Stmt>], out: &mut Outcome, ev: &mut Evidence, strict: bool) {
    let projects: Vec<Project> = programs.iter().enumerate().map(|(i, st)| Project::single(&format!("c04p{i}"), &render(st))).collect();
    let outs = farm.run_many(&projects, Mode::BuildRun);
    for (stmts, o) in programs.iter().zip(outs.iter()) {
        let fails = match judge_program(stmts, o) {
            Err(e) => {
                out.inconclusive(&format!("farm: {e}"));
                continue;
            }
            Ok(f) => f,
        };
        let mut first_by_key: std::collections::BTreeMap<String, (usize, Fail)> = std::collections::BTreeMap::new();
        for (idx, f) in fails {
            ev.violations += 1;
            first_by_key.entry(f.key.clone()).or_insert((idx, f));
        }
        for (key, (idx, f)) in first_by_key {
            if out.seen(&key) || out.violations.len() >= out.max_reports {
                continue;
            }
            let (small, f_small) = shrink_program(farm, stmts, idx, &key);
            report_program_fail(out, ev, &small, &f_small.unwrap_or(f), strict);
        }
    }
}

// ------------------------------------------------------------------------------------------------
// CPython cross-check of the reference (thorough)
// ------------------------------------------------------------------------------------------------

const PY_SCRIPT: &str = r#"
import sys, struct, math
def f(bits): return struct.unpack('<d', struct.pack('<Q', int(bits)))[0]
def bits(x): return struct.unpack('<Q', struct.pack('<d', x))[0]
out = []
for line in sys.stdin:
    k, op, a, b = line.split()
    x = int(a) if k[0] == 'I' else f(a)
    y = int(b) if k[1] == 'I' else f(b)
    try:
        if op == '/':
            r = float(x) / float(y)
        elif op == '//':
            if k == 'II':
                r = x // y
            else:
                q = float(x) / float(y)
                r = q if math.isinf(q) else float(math.floor(q))
        else:
            r = x % y
        out.append('i %d' % r if isinstance(r, int) else 'f %d' % bits(r))
    except ZeroDivisionError:
        out.append('z')
    except OverflowError:
        out.append('o')
sys.stdout.write('\n'.join(out) + '\n')
"#;

fn cpython_crosscheck(cases: &[(Op, Pair)], work: &std::path::Path) -> Result<u64, String> {
    use std::io::Write;
    let _ = std::fs::create_dir_all(work);
    let inp = work.join("xcheck_in.txt");
    {
        let mut f = std::io::BufWriter::new(std::fs::File::create(&inp).map_err(|e| e.to_string())?);
        for (op, p) in cases {
            let enc = |n: Num| match n {
                Num::I(v) => v.to_string(),
                Num::F(v) => v.to_bits().to_string(),
            };
            writeln!(f, "{} {} {} {}", p.kind(), op.sym(), enc(p.a), enc(p.b)).map_err(|e| e.to_string())?;
        }
    }
    let output = std::process::Command::new("python3")
        .arg("-c")
        .arg(PY_SCRIPT)
        .stdin(std::fs::File::open(&inp).map_err(|e| e.to_string())?)
        .output()
        .map_err(|e| format!("python3: {e}"))?;
    let _ = std::fs::remove_file(&inp);
    if !output.status.success() {
        return Err(format!("python3 failed: {}", String::from_utf8_lossy(&output.stderr)));
    }
    let text = String::from_utf8_lossy(&output.stdout);
    let lines: Vec<&str> = text.lines().collect();
    if lines.len() != cases.len() {
        return Err(format!("python3 answered {} lines for {} cases", lines.len(), cases.len()));
    }
    let mut compared = 0u64;
    for ((op, p), line) in cases.iter().zip(lines) {
        let exp = reference(*op, *p);
        let ok = match exp {
            // Python's unbounded ints do give a value for i64::MIN // -1
            Exp::OutOfDomain => true,
            Exp::ZeroDiv => line == "z",
            Exp::Int(v) => line.strip_prefix("i ").and_then(|s| s.parse::<i128>().ok()) == Some(v),
            Exp::Float(v) => line.strip_prefix("f ").and_then(|s| s.parse::<u64>().ok()).is_some_and(|b| py::same_f64(f64::from_bits(b), v)),
        };
        if !ok {
            return Err(format!("reference model disagrees with CPython on {} {} {}: model {:?}, CPython {:?}", show_num(p.a), op.sym(), show_num(p.b), exp, line));
        }
        compared += 1;
    }
    Ok(compared)
}

// ------------------------------------------------------------------------------------------------
// main
// ------------------------------------------------------------------------------------------------

fn report_kernel(out: &mut Outcome, ev: &mut Evidence, op: Op, p: Pair, fails: &[Fail]) {
    for f in fails {
        if out.seen(&f.key) {
            ev.violations += 1;
            continue;
        }
        let body = serde_json::to_string_pretty(&json!({"leg": "kernel", "op": op.sym(), "a": p.a.to_json(), "b": p.b.to_json(), "signature": f.key, "what": f.what})).unwrap();
        out.violation(ev, &f.key, "json", &body, &f.what);
    }
}

/// Statement-level probes that must hold exactly as written in the property statement.
fn fixed_probes() -> Vec<(Op, Pair)> {
    let i = |a: i64, b: i64| Pair { a: Num::I(a), b: Num::I(b) };
    let f = |a: f64, b: f64| Pair { a: Num::F(a), b: Num::F(b) };
    let mut v = vec![
        (Op::Mod, i(i64::MIN, -1)),
        (Op::Div, i(i64::MIN, -1)),
        (Op::Floor, i(i64::MIN, 1)),
        (Op::Floor, i(i64::MIN + 1, -1)),
        (Op::Floor, i(i64::MAX, -1)),
        (Op::Mod, i(i64::MIN, i64::MAX)),
        (Op::Mod, i(i64::MAX, i64::MIN)),
        (Op::Floor, i(i64::MAX, i64::MIN)),
        (Op::Floor, i(i64::MIN, i64::MAX)),
        (Op::Mod, i(-1, i64::MAX)),
        (Op::Mod, i(1, i64::MIN)),
        (Op::Mod, f(-1e-20, 1.0)),
        (Op::Mod, f(1e-20, -1.0)),
        (Op::Mod, f(5e-324, -f64::MAX)),
        (Op::Mod, f(-5e-324, f64::MAX)),
        (Op::Floor, f(1e308, 1e-308)),
        (Op::Floor, f(-1e308, 1e-308)),
        (Op::Floor, f(-5e-324, 1e308)),
        (Op::Floor, f(0.7, 0.1)),
        (Op::Mod, f(0.7, 0.1)),
        (Op::Div, f(-0.0, 5.0)),
    ];
    for op in Op::ALL {
        v.push((op, i(5, 0)));
        v.push((op, f(5.0, 0.0)));
        v.push((op, f(5.0, -0.0)));
        v.push((op, Pair { a: Num::I(5), b: Num::F(-0.0) }));
        v.push((op, Pair { a: Num::F(5.0), b: Num::I(0) }));
        v.push((op, i(0, 0)));
        v.push((op, f(0.0, 0.0)));
    }
    v
}

fn main() {
    let args = Args::parse("C04");
    util::install_quiet_panic_hook();
    let mut out = Outcome::new("C04");
    let mut ev = Evidence::new(
        &args,
        "one case = (operator, operand kinds, a, b). Non-trivial: b == 0, or b != 0 and (operand signs differ, or a is an exact \
         multiple of b, or an operand magnitude >= 2^53, or an operand within 3 of a boundary-pool integer / subnormal / \
         > 1e300 float). Distinct = hash of (operator, operand bit patterns).",
    );
    ev.assume("floats are finite (NaN/Inf operands are documented as IEEE divergence and not generated)");
    ev.assume("the sign of a zero result is not judged (the statement only gives the sign rule for non-zero remainders)");
    ev.assume("float // and / may overflow to +-inf for finite operands; that is the IEEE quotient and is accepted");
    ev.assume("incan_core::py_*_impl document `b != 0` as a precondition and are not called with a zero divisor");
    ev.assume("end-to-end float output is judged after parsing the printed text back to f64 (Rust prints shortest round-trip digits)");

    // ---------------- replay
    if let Some(path) = &args.replay {
        let text = std::fs::read_to_string(path).unwrap_or_default();
        let v: Value = match serde_json::from_str(&text) {
            Ok(v) => v,
            Err(e) => {
                out.inconclusive(&format!("replay file is not JSON: {e}"));
                std::process::exit(out.finish(&ev));
            }
        };
        if v["leg"] == "e2e" {
            let stmts: Vec<Stmt> = v["statements"].as_array().map(|a| a.iter().filter_map(stmt_from_json).collect()).unwrap_or_default();
            if stmts.is_empty() {
                out.inconclusive("replay file has no statements");
                std::process::exit(out.finish(&ev));
            }
            let mut farm = Farm::new("c04-replay");
            farm.run_timeout = std::time::Duration::from_secs(180);
            for s in &stmts {
                ev.case(Some(case_hash(s.op, s.p)));
            }
            ev.sample(json!({"leg": "e2e", "source": render(&stmts)}));
            run_programs(&farm, &[stmts], &mut out, &mut ev, true);
        } else {
            let (Some(a), Some(b)) = (Num::from_json(&v["a"]), Num::from_json(&v["b"])) else {
                out.inconclusive("replay file lacks operands");
                std::process::exit(out.finish(&ev));
            };
            let p = Pair { a, b };
            let ops: Vec<Op> = match v["op"].as_str().and_then(Op::from_sym) {
                Some(o) => vec![o],
                None => Op::ALL.to_vec(),
            };
            for op in ops {
                ev.case(Some(case_hash(op, p)));
                if reference(op, p) == Exp::OutOfDomain {
                    ev.discard("i64::MIN // -1 (excluded by the statement)");
                    continue;
                }
                let fails = judge_kernel(op, p);
                report_kernel(&mut out, &mut ev, op, p, &fails);
            }
            ev.sample(pair_json(p));
        }
        std::process::exit(out.finish(&ev));
    }

    // ---------------- known findings: replay the canonical inputs
    let known_i32 = out.is_known(K_I32);
    let mut farm = Farm::new("c04");
    // a busy machine must not turn into a verdict or an early watchdog: generated programs run for milliseconds
    farm.run_timeout = std::time::Duration::from_secs(180);
    for e in out.known.open.clone() {
        let text = std::fs::read_to_string(&e.replay).unwrap_or_default();
        let stmts: Vec<Stmt> = serde_json::from_str::<Value>(&text)
            .ok()
            .and_then(|v| v["statements"].as_array().map(|a| a.iter().filter_map(stmt_from_json).collect()))
            .unwrap_or_default();
        if stmts.is_empty() {
            out.inconclusive(&format!("known finding {}: canonical input {} unreadable", e.key, e.replay.display()));
            continue;
        }
        let o = farm.run_many(&[Project::single("c04known", &render(&stmts))], Mode::BuildRun);
        match judge_program(&stmts, &o[0]) {
            Ok(fails) => out.known_replayed(&e.key, fails.iter().any(|(_, f)| f.key == e.key)),
            Err(why) => out.inconclusive(&format!("known finding {}: {why}", e.key)),
        }
    }

    // ---------------- leg 0: fixed probes from the statement
    for (op, p) in fixed_probes() {
        ev.case(if nontrivial(p) { Some(case_hash(op, p)) } else { None });
        ev.class("fixed-probe");
        if let Some(why) = reference_selfcheck(p) {
            out.inconclusive(&format!("reference self-check: {why}"));
        }
        let fails = judge_kernel(op, p);
        report_kernel(&mut out, &mut ev, op, p, &fails);
    }
    ev.sample(json!({"leg": "kernel", "probe": "i64::MIN % -1", "expected": "0, no panic",
        "py_mod_i64": gi(|| rt::py_mod_i64(i64::MIN, -1)).show(), "core": gi(|| incan_core::py_mod_i64_impl(i64::MIN, -1)).show()}));

    // ---------------- leg 1+2: kernels and parity
    let t_kernel = std::time::Instant::now(); // evidence only, never a verdict
    let n_pairs: usize = args.tier.pick(134_000, 4_000_000);
    let chunk = 50_000usize;
    let n_chunks = n_pairs.div_ceil(chunk);
    let mut xcheck_cases: Vec<(Op, Pair)> = Vec::new();
    let xcheck_want: usize = args.tier.pick(0, 200_000);
    let mut selfcheck_fail: Option<String> = None;
    // Chunks are generated, judged and (on failure) shrunk on worker threads, each from its own seeded runner, and
    // merged in chunk order, so the run stays a pure function of the seed.
    struct ChunkOut {
        cases: Vec<(Pair, &'static str)>,
        failing: Vec<bool>,
        selfcheck: Option<String>,
        shrunk: Vec<(String, Op, Pair)>,
    }
    let run_chunk = |c: usize| -> ChunkOut {
        let n = chunk.min(n_pairs - c * chunk);
        let strat = pair_s();
        let mut runner = vcore::gen::runner(args.subseed(400 + c as u64));
        let mut trees = vcore::gen::batch(&strat, &mut runner, n);
        let cases: Vec<(Pair, &'static str)> = trees.iter().map(|t| t.current()).collect();
        let mut failing = vec![false; cases.len()];
        let mut selfcheck = None;
        let mut shrunk = Vec::new();
        let mut keys = std::collections::BTreeSet::new();
        for (i, (p, _)) in cases.iter().enumerate() {
            if selfcheck.is_none() {
                selfcheck = reference_selfcheck(*p);
            }
            for op in Op::ALL {
                let fs = judge_kernel(op, *p);
                if let Some(first) = fs.first() {
                    failing[i] = true;
                    if keys.len() < 8 && keys.insert(first.key.clone()) {
                        let key = first.key.clone();
                        let small = vcore::gen::shrink(&mut trees[i], 300, |v: &(Pair, &'static str)| judge_kernel(op, v.0).iter().any(|f| f.key == key));
                        shrunk.push((key, op, small.0));
                    }
                }
            }
        }
        ChunkOut { cases, failing, selfcheck, shrunk }
    };
    let group = 8usize;
    for g in (0..n_chunks).step_by(group) {
        let idx: Vec<usize> = (g..(g + group).min(n_chunks)).collect();
        let outs: Vec<ChunkOut> = idx.par_iter().map(|c| run_chunk(*c)).collect();
        for (c, co) in idx.iter().zip(outs) {
            if let Some(w) = &co.selfcheck {
                selfcheck_fail.get_or_insert_with(|| w.clone());
            }
            for (i, (p, class)) in co.cases.iter().enumerate() {
                ev.class(&format!("pair:{class}"));
                ev.class(&format!("kinds:{}", p.kind()));
                let nt = nontrivial(*p);
                for op in Op::ALL {
                    if reference(op, *p) == Exp::OutOfDomain {
                        ev.cases(1);
                        ev.discard("i64::MIN // -1 (excluded by the statement)");
                        continue;
                    }
                    ev.case(if nt { Some(case_hash(op, *p)) } else { None });
                    if xcheck_cases.len() < xcheck_want {
                        xcheck_cases.push((op, *p));
                    }
                }
                if *c == 0 && (i % 9973 == 17) {
                    let exp: Vec<String> = Op::ALL.iter().map(|op| format!("{} -> {:?}", op.sym(), reference(*op, *p))).collect();
                    ev.sample(json!({"leg": "kernel", "class": class, "pair": pair_json(*p), "reference": exp}));
                }
                if co.failing[i] {
                    ev.violations += 1;
                }
            }
            for (key, op, small) in &co.shrunk {
                if out.seen(key) {
                    continue;
                }
                let f2 = judge_kernel(*op, *small);
                report_kernel(&mut out, &mut ev, *op, *small, &f2);
            }
        }
    }
    if let Some(w) = selfcheck_fail {
        out.inconclusive(&format!("reference self-check failed: {w}"));
    }

    ev.set("wall_s_kernel_leg", json!(t_kernel.elapsed().as_secs_f64()));

    // ---------------- leg 4: CPython cross-check of the reference (thorough)
    if xcheck_want > 0 {
        let work = vcore::verif_root().join("work").join("c04-xcheck");
        match cpython_crosscheck(&xcheck_cases, &work) {
            Ok(n) => ev.set("cpython_crosscheck_cases", json!(n)),
            Err(e) => out.inconclusive(&format!("oracle cross-check: {e}")),
        }
        let _ = std::fs::remove_dir_all(&work);
    }

    // ---------------- leg 3: end to end
    let n_value_programs: usize = args.tier.pick(2, 40);
    let n_zero_programs: usize = args.tier.pick(2, 20);
    let tuples_per_program: usize = 150;
    let mut runner = vcore::gen::runner(args.subseed(777));
    let nz_strat = pair_s().prop_filter("non-zero divisor", |(p, _)| !p.b.is_zero());
    let form_s = select(vec![Form::Vars, Form::Vars, Form::Literals, Form::Compound, Form::Compound]);
    let mut programs: Vec<Vec<Stmt>> = Vec::new();
    let mut e2e_stmt_count = 0u64;
    let gen_stmts = |runner: &mut proptest::test_runner::TestRunner, ev: &mut Evidence, n: usize| -> Vec<Stmt> {
        let pairs = vcore::gen::batch(&nz_strat, runner, n);
        let mut v = Vec::new();
        for (k, t) in pairs.iter().enumerate() {
            let (p, _) = t.current();
            for (j, op) in Op::ALL.into_iter().enumerate() {
                if reference(op, p) == Exp::OutOfDomain {
                    ev.discard("i64::MIN // -1 (excluded by the statement)");
                    continue;
                }
                let mut form = vcore::gen::one(&form_s, runner).unwrap_or(Form::Vars);
                // make sure every form x kind x op combination turns up early in every program
                if (k + j) % 3 == 0 && compound_ok(p, op) {
                    form = Form::Compound;
                }
                if form == Form::Compound && !compound_ok(p, op) {
                    form = Form::Vars;
                }
                if form == Form::Literals && !literal_form_ok(p) {
                    form = Form::Vars;
                }
                let mut st = Stmt { p, op, form, in_fn: form != Form::Literals && (k + 2 * j) % 4 == 1 };
                if known_i32 && st.is_i32_fallback_construct() {
                    // known finding: keep the operands, move them into typed function parameters
                    ev.exclude(K_I32);
                    if st.form == Form::Literals {
                        st.form = Form::Vars;
                    }
                    st.in_fn = true;
                }
                v.push(st);
            }
        }
        v
    };
    for _ in 0..n_value_programs {
        programs.push(gen_stmts(&mut runner, &mut ev, tuples_per_program));
    }
    // zero-divisor programs: a few in-domain statements, then the zero divisor as the last statement.
    // The (kinds, op, form) combination rotates with the seed so that repeated quick runs cover all of them.
    let mut combos: Vec<(char, char, Op, Form)> = Vec::new();
    for (ka, kb) in [('I', 'I'), ('I', 'F'), ('F', 'I'), ('F', 'F')] {
        for op in Op::ALL {
            for form in [Form::Vars, Form::Literals, Form::Compound] {
                let probe = Pair { a: if ka == 'I' { Num::I(1) } else { Num::F(1.0) }, b: if kb == 'I' { Num::I(0) } else { Num::F(0.0) } };
                if form == Form::Compound && !compound_ok(probe, op) {
                    continue;
                }
                combos.push((ka, kb, op, form));
            }
        }
    }
    let rot = (args.seed as usize).wrapping_mul(n_zero_programs) % combos.len();
    for z in 0..n_zero_programs {
        let (ka, kb, op, form) = combos[(rot + z) % combos.len()];
        let mut stmts = gen_stmts(&mut runner, &mut ev, 3);
        let a = vcore::gen::one(&num_s(ka), &mut runner).unwrap_or(Num::I(1));
        let a = if form == Form::Literals && a == Num::I(i64::MIN) { Num::I(-5) } else { a };
        let negz = vcore::gen::one(&any::<bool>(), &mut runner).unwrap_or(false);
        let b = if kb == 'I' { Num::I(0) } else { Num::F(if negz { -0.0 } else { 0.0 }) };
        let mut st = Stmt { p: Pair { a, b }, op, form, in_fn: form != Form::Literals && z % 2 == 1 };
        if known_i32 && st.is_i32_fallback_construct() {
            ev.exclude(K_I32);
            if st.form == Form::Literals {
                st.form = Form::Vars;
            }
            st.in_fn = true;
        }
        stmts.push(st);
        ev.class(&format!("e2e-zero:{}{}{}:{}", ka, kb, op.sym(), form.name()));
        programs.push(stmts);
    }
    let n_generated = programs.len();
    // regression inputs: canonical inputs of findings that are no longer open (fixed) run as ordinary programs
    {
        let dir = vcore::verif_root().join("known").join("C04");
        let mut files: Vec<std::path::PathBuf> = std::fs::read_dir(&dir).map(|rd| rd.flatten().map(|e| e.path()).collect()).unwrap_or_default();
        files.sort();
        for f in files {
            if out.known.open.iter().any(|e| e.replay == f) {
                continue;
            }
            let stmts: Vec<Stmt> = serde_json::from_str::<Value>(&std::fs::read_to_string(&f).unwrap_or_default())
                .ok()
                .and_then(|v| v["statements"].as_array().map(|a| a.iter().filter_map(stmt_from_json).collect()))
                .unwrap_or_default();
            if !stmts.is_empty() {
                ev.class("regression-input");
                programs.push(stmts);
            }
        }
    }
    for st in programs.iter().flatten() {
        e2e_stmt_count += 1;
        ev.case(if nontrivial(st.p) { Some(case_hash(st.op, st.p) ^ 0xE2E) } else { None });
        ev.class(&who_of(st));
    }
    if let Some(p0) = programs.first() {
        ev.sample(json!({"leg": "e2e", "first_statements_of_program_0": util::truncate(&render(&p0[..p0.len().min(4)]), 900)}));
    }
    if let Some(pz) = programs[..n_generated].last() {
        ev.sample(json!({"leg": "e2e-zero-divisor", "program": util::truncate(&render(pz), 1500)}));
    }
    let t_e2e = std::time::Instant::now();
    run_programs(&farm, &programs, &mut out, &mut ev, false);
    ev.set("wall_s_e2e_leg", json!(t_e2e.elapsed().as_secs_f64()));
    ev.set("e2e_programs", json!(programs.len()));
    ev.set("e2e_statements", json!(e2e_stmt_count));
    ev.set("kernel_pairs", json!(n_pairs));
    ev.set("entry_points", json!(["num::py_div", "num::py_mod", "num::py_floor_div", "num::py_mod_i64", "num::py_mod_f64", "num::py_floor_div_i64", "num::py_floor_div_f64", "incan_core::py_mod_i64_impl", "incan_core::py_floor_div_i64_impl", "incan_core::py_mod_f64_impl"]));
    std::process::exit(out.finish(&ev));
}
