//! C16 — `incan test` reports the truth.
//!
//! Generator (proptest): small test directories — 1–2 test files (`test_*.incn` / `*_test.incn`, optionally one in a
//! sub-directory) with 1–6 test functions in total, each with a body behaviour (passes / `assert_eq` / `assert_ne` /
//! `assert` / `assert_true` / `assert_false` / `fail(msg)` fails / fails in a helper / fails in a loop / index out of
//! range / zero division / passes after work), a marker (`@skip`, `@xfail`, `@slow`, combinations, with/without
//! reason), an optional fixture parameter; plus functions and files that must NOT be collected (no `test_` prefix, file
//! not named like a test file). CLI flags from {-k kw, --slow, -x, --fail-on-empty, -v} and the documented path forms.
//!
//! Every function body writes `<id>.begin` first and `<id>.end` last into a marker directory private to the case, so
//! "the body ran to completion" is observed independently of the runner.
//!
//! Oracle: a model of the documented runner (tooling/how-to/testing.md, language/reference/testing.md, CLI reference)
//! gives the selected set, the verdict of every selected test, and the exit status. It is compared with the parsed
//! `file::name STATUS` lines, the `collected N item(s)` line, the summary line and the exit status of the real CLI, and
//! with the marker files (PASSED/XPASS => end marker; FAILED/XFAIL => begin marker and no end marker; SKIPPED,
//! deselected, not-a-test => no marker).

use proptest::prelude::*;
use proptest::strategy::ValueTree;
use serde_json::{json, Value};
use std::collections::{BTreeMap, BTreeSet};
use std::path::Path;
use std::process::Command;
use std::sync::Mutex;
use std::time::Duration;
use vcore::farm::{self, Farm};
use vcore::{util, Args, Evidence, Outcome};

/// Words used in test names and as `-k` keywords. No word is a substring of another word, of "test", of a file
/// name used by the generator, or of a path component of the work directory; so "name contains keyword" and "keyword
/// is a whole `_`-separated word of the name" coincide, and a keyword can never match through a file or directory name.
const WORDS: [&str; 8] = ["alpha", "bravo", "gamma", "delta", "omega", "sigma", "kappa", "lambda"];
const REASONS: [&str; 4] = ["not implemented yet", "known bug 123", "flaky", "needs network"];

/// The generated harness never calls the selected test function: the runner reports PASSED/XPASS for a body that never
/// began.
const KEY_HARNESS: &str = "harness:selected-test-never-executed";
/// A test in a file that uses the documented fixture API is not run as documented.
const KEY_FIXTURE: &str = "fixture:test-in-fixture-file-not-run-as-documented";

// ------------------------------------------------------------------------------------------------ behaviours

#[derive(Clone, Copy, Debug, PartialEq, Eq, PartialOrd, Ord)]
enum Beh {
    PassPlain,
    PassWork,
    PassHelper,
    FailEq,
    FailAssert,
    FailMsg,
    PanicIndex,
    PanicDiv,
    FailNe,
    FailTrue,
    FailFalse,
    FailInHelper,
    FailInLoop,
}

/// weighted table; index 0 is the simplest so that shrinking moves towards it
const BEH_TABLE: [Beh; 21] = [
    Beh::PassPlain,
    Beh::PassPlain,
    Beh::PassPlain,
    Beh::PassWork,
    Beh::PassWork,
    Beh::PassHelper,
    Beh::FailEq,
    Beh::FailEq,
    Beh::FailAssert,
    Beh::FailAssert,
    Beh::FailMsg,
    Beh::FailMsg,
    Beh::PanicIndex,
    Beh::PanicIndex,
    Beh::PanicDiv,
    Beh::PanicDiv,
    Beh::FailNe,
    Beh::FailTrue,
    Beh::FailFalse,
    Beh::FailInHelper,
    Beh::FailInLoop,
];

impl Beh {
    fn name(self) -> &'static str {
        match self {
            Beh::PassPlain => "passes",
            Beh::PassWork => "passes_after_work",
            Beh::PassHelper => "passes_through_helper",
            Beh::FailEq => "assert_eq_fails",
            Beh::FailAssert => "assert_fails",
            Beh::FailMsg => "fail_msg",
            Beh::PanicIndex => "panic_index_out_of_range",
            Beh::PanicDiv => "panic_zero_division",
            Beh::FailNe => "assert_ne_fails",
            Beh::FailTrue => "assert_true_fails",
            Beh::FailFalse => "assert_false_fails",
            Beh::FailInHelper => "fails_in_helper",
            Beh::FailInLoop => "fails_in_loop",
        }
    }
    fn passes(self) -> bool {
        matches!(self, Beh::PassPlain | Beh::PassWork | Beh::PassHelper)
    }
    /// body lines (without indentation); `n` in 1..=8
    fn body(self, n: i64) -> Vec<String> {
        match self {
            Beh::PassPlain => vec![format!("assert_eq(triple({n}), {})", 3 * n)],
            Beh::PassWork => {
                let upto = n + 3;
                let total: i64 = (0..upto).map(|i| 3 * i).sum();
                vec![
                    "mut total = 0".into(),
                    format!("for i in range({upto}):"),
                    "    total += triple(i)".into(),
                    format!("assert_eq(total, {total})"),
                    "assert_true(total >= 0)".into(),
                    "assert_false(total < 0)".into(),
                    format!("assert_ne(total, {})", total + 1),
                ]
            }
            Beh::PassHelper => vec![format!("check_equal(triple({n}), {})", 3 * n)],
            Beh::FailEq => vec![format!("assert_eq(triple({n}), {})", 3 * n + 1)],
            Beh::FailAssert => vec![format!("assert(triple({n}) == {})", 3 * n + 1)],
            Beh::FailMsg => vec![format!("fail(\"explicit failure {n}\")")],
            Beh::PanicIndex => vec!["xs = [1, 2, 3]".into(), format!("i = {n} + len(xs)"), "y = xs[i]".into()],
            Beh::PanicDiv => vec![format!("d = len([{n}]) - 1"), format!("y = {} // d", n + 9)],
            Beh::FailNe => vec![format!("assert_ne(triple({n}), {})", 3 * n)],
            Beh::FailTrue => vec![format!("assert_true(triple({n}) < 0)")],
            Beh::FailFalse => vec![format!("assert_false(triple({n}) > 0)")],
            Beh::FailInHelper => vec![format!("check_equal(triple({n}), {})", 3 * n + 2)],
            Beh::FailInLoop => vec!["for i in range(5):".into(), format!("    assert_true(i < {})", n % 4 + 1)],
        }
    }
}

#[derive(Clone, Copy, Debug, PartialEq, Eq)]
enum Mark {
    None,
    Skip,
    XFail,
}
const MARK_TABLE: [Mark; 12] = [
    Mark::None,
    Mark::None,
    Mark::None,
    Mark::None,
    Mark::None,
    Mark::None,
    Mark::XFail,
    Mark::XFail,
    Mark::XFail,
    Mark::XFail,
    Mark::Skip,
    Mark::Skip,
];

/// how the reason is spelled: index into REASONS, or bare decorator, or empty parentheses
#[derive(Clone, Copy, Debug, PartialEq, Eq)]
enum Reason {
    Text(usize),
    Bare,
    EmptyParens,
}

// ------------------------------------------------------------------------------------------------ generator spec

#[derive(Clone, Debug)]
struct TestSpec {
    w1: usize,
    w2: usize,
    beh: Beh,
    n: i64,
    mark: Mark,
    reason: Reason,
    slow: bool,
    slow_first: bool,
    fixture: bool,
}

#[derive(Clone, Debug)]
struct FileSpec {
    suffix_style: bool,
    tests: Vec<TestSpec>,
    nontest_fn: bool,
}

#[derive(Clone, Debug)]
enum KSel {
    None,
    FromTest(u16),
    Word(usize),
}

#[derive(Clone, Debug)]
struct CaseSpec {
    files: Vec<FileSpec>,
    second_in_subdir: bool,
    ghost_file: bool,
    k: KSel,
    slow: bool,
    x: bool,
    foe: bool,
    verbose: bool,
    path_style: u8,
    /// with two files: the tests of the second file reuse the function names of the first file's tests
    collide: bool,
    /// 0 = re-run after editing the first file, 1 = after editing the last file, other = single run
    rerun: u8,
}

fn test_strat() -> impl Strategy<Value = TestSpec> {
    (
        any::<u16>(),
        any::<u16>(),
        any::<u16>(),
        1i64..=8,
        any::<u16>(),
        any::<u16>(),
        prop::bool::weighted(0.18),
        any::<bool>(),
        prop::bool::weighted(0.12),
    )
        .prop_map(|(w1, w2, b, n, m, r, slow, slow_first, fixture)| TestSpec {
            w1: vcore::gen::idx(w1, WORDS.len()),
            w2: vcore::gen::idx(w2, WORDS.len()),
            beh: BEH_TABLE[vcore::gen::idx(b, BEH_TABLE.len())],
            n,
            mark: MARK_TABLE[vcore::gen::idx(m, MARK_TABLE.len())],
            reason: match vcore::gen::idx(r, 6) {
                k @ 0..=3 => Reason::Text(k),
                4 => Reason::Bare,
                _ => Reason::EmptyParens,
            },
            slow,
            slow_first,
            fixture,
        })
}

fn file_strat(max_tests: usize) -> impl Strategy<Value = FileSpec> {
    (prop::bool::weighted(0.3), prop::collection::vec(test_strat(), 1..=max_tests), prop::bool::weighted(0.5))
        .prop_map(|(suffix_style, tests, nontest_fn)| FileSpec { suffix_style, tests, nontest_fn })
}

fn case_strat() -> impl Strategy<Value = CaseSpec> {
    let k = prop_oneof![
        5 => Just(KSel::None),
        4 => any::<u16>().prop_map(KSel::FromTest),
        1 => (0..WORDS.len()).prop_map(KSel::Word),
    ];
    (
        file_strat(5),
        prop::option::weighted(0.3, file_strat(2)),
        any::<bool>(),
        prop::bool::weighted(0.4),
        k,
        prop::bool::weighted(0.4),
        prop::bool::weighted(0.25),
        prop::bool::weighted(0.3),
        prop::bool::weighted(0.25),
        0u8..4,
        prop::bool::weighted(0.5),
        0u8..12,
    )
        .prop_map(|(f0, f1, second_in_subdir, ghost_file, k, slow, x, foe, verbose, path_style, collide, rerun)| {
            let mut files = vec![f0];
            if let Some(mut f1) = f1 {
                // cost bound: at most 6 test functions per case
                let room = 6usize.saturating_sub(files[0].tests.len()).max(1);
                f1.tests.truncate(room);
                files.push(f1);
            }
            CaseSpec { files, second_in_subdir, ghost_file, k, slow, x, foe, verbose, path_style, collide, rerun }
        })
}

// ------------------------------------------------------------------------------------------------ resolved case

#[derive(Clone, Debug)]
struct RTest {
    name: String,
    file: String,
    id: String,
    beh: String,
    passes: bool,
    /// "none" | "skip" | "xfail"
    mark: String,
    reason: String,
    slow: bool,
    /// the test lives in a file that uses the fixture API
    fixture: bool,
}

#[derive(Clone, Debug)]
struct Ghost {
    id: String,
    name: String,
    why: String,
}

/// What is handed to the CLI and to the judge; this is also the replay format.
#[derive(Clone, Debug)]
struct RCase {
    /// (path relative to the case directory, source; `@M@` stands for the absolute marker directory)
    files: Vec<(String, String)>,
    /// arguments after `incan test`
    args: Vec<String>,
    k: Option<String>,
    slow: bool,
    x: bool,
    fail_on_empty: bool,
    tests: Vec<RTest>,
    ghosts: Vec<Ghost>,
    /// a second invocation in the same directory after these (edited) files replaced the first ones
    rerun: Option<Box<RCase>>,
}

fn marker_lines(id: &str, body: &[String]) -> Vec<String> {
    let mut v = vec![format!("mb = write_file(\"@M@/{id}.begin\", \"b\")")];
    v.extend(body.iter().cloned());
    v.push(format!("me = write_file(\"@M@/{id}.end\", \"e\")"));
    v
}

fn render_fn(decorators: &[String], name: &str, params: &str, lines: &[String]) -> String {
    let mut s = String::new();
    for d in decorators {
        s.push_str(d);
        s.push('\n');
    }
    s.push_str(&format!("def {name}({params}) -> None:\n"));
    for l in lines {
        s.push_str("    ");
        s.push_str(l);
        s.push('\n');
    }
    s
}

const PROFILES: [&str; 11] = [
    "skip-present",
    "k-matches-second-word",
    "empty-selection",
    "slow-with--slow",
    "slow-without--slow",
    "stop-on-first-failure",
    "xfail-both-ways-no-plain-failure",
    "non-tests-present",
    "same-name-in-two-files",
    "rerun-after-edit",
    "free",
];

/// Stratification by construction: case number `slot` of a batch is forced into one scenario class so that every
/// run, however small, contains each of them; everything not named by the scenario stays as generated.
fn apply_profile(spec: &CaseSpec, slot: usize) -> CaseSpec {
    let mut s = spec.clone();
    let failing = |t: &mut TestSpec| {
        if t.beh.passes() {
            t.beh = Beh::FailEq;
        }
    };
    // the first file has at least two tests
    let ensure_two = |s: &mut CaseSpec| {
        if s.files[0].tests.len() < 2 {
            let mut t = s.files[0].tests[0].clone();
            t.w2 = (t.w2 + 1) % WORDS.len();
            s.files[0].tests.push(t);
        }
    };
    match slot % PROFILES.len() {
        0 => {
            // a selected @skip test
            s.k = KSel::None;
            let t = s.files[0].tests.last_mut().unwrap();
            t.mark = Mark::Skip;
            t.slow = false;
        }
        1 => {
            // the keyword is the *second* word of the first test's name and not its first word
            let t = &mut s.files[0].tests[0];
            if t.w2 == t.w1 {
                t.w2 = (t.w1 + 1) % WORDS.len();
            }
            t.slow = false;
            s.k = KSel::FromTest(1);
        }
        2 => {
            // nothing is selected; --fail-on-empty on every other round
            s.foe = (slot / PROFILES.len()) % 2 == 0;
            let used: BTreeSet<usize> = s.files.iter().flat_map(|f| f.tests.iter()).flat_map(|t| [t.w1, t.w2]).collect();
            if let Some(w) = (0..WORDS.len()).find(|w| !used.contains(w)) {
                s.k = KSel::Word(w);
            } else {
                s.k = KSel::None;
                s.slow = false;
                for f in s.files.iter_mut() {
                    for t in f.tests.iter_mut() {
                        t.slow = true;
                    }
                }
            }
        }
        3 => {
            s.k = KSel::None;
            s.slow = true;
            s.files[0].tests[0].slow = true;
        }
        4 => {
            s.k = KSel::None;
            s.slow = false;
            ensure_two(&mut s);
            s.files[0].tests[0].slow = true;
            s.files[0].tests[1].slow = false;
        }
        5 => {
            // -x, the first test of the first file fails and another test follows it
            s.k = KSel::None;
            s.x = true;
            ensure_two(&mut s);
            let t = &mut s.files[0].tests[0];
            t.mark = Mark::None;
            t.slow = false;
            failing(t);
            s.files[0].tests[1].slow = false;
        }
        6 => {
            // one XFAIL (decorator without reason text), one XPASS, and no plain failure: the exit status is
            // non-zero only because of the XPASS
            s.k = KSel::None;
            ensure_two(&mut s);
            for f in s.files.iter_mut() {
                for t in f.tests.iter_mut() {
                    if t.mark == Mark::None && !t.beh.passes() {
                        t.mark = Mark::XFail;
                    }
                }
            }
            {
                let t = &mut s.files[0].tests[0];
                t.mark = Mark::XFail;
                t.slow = false;
                failing(t);
                if let Reason::Text(i) = t.reason {
                    t.reason = if i % 2 == 0 { Reason::Bare } else { Reason::EmptyParens };
                }
            }
            let t = &mut s.files[0].tests[1];
            t.mark = Mark::XFail;
            t.slow = false;
            if !t.beh.passes() {
                t.beh = Beh::PassWork;
            }
        }
        7 => {
            s.ghost_file = true;
            s.files[0].nontest_fn = true;
            // the keyword is a word of the non-test names too, so -k would select them if they were collected
            s.k = KSel::FromTest(0);
            s.files[0].tests[0].slow = false;
            if s.path_style == 2 {
                s.path_style = 0;
            }
        }
        8 => {
            // two collected files define a test with the same function name and different true verdicts
            s.k = KSel::None;
            s.x = false;
            s.collide = true;
            if s.files.len() < 2 {
                let mut f1 = s.files[0].clone();
                f1.suffix_style = !f1.suffix_style;
                let room = 6usize.saturating_sub(s.files[0].tests.len()).max(1);
                f1.tests.truncate(room);
                s.files.push(f1);
            }
            let b0 = s.files[0].tests[0].beh;
            {
                let t = &mut s.files[0].tests[0];
                t.mark = Mark::None;
                t.slow = false;
            }
            let t = &mut s.files[1].tests[0];
            t.mark = Mark::None;
            t.slow = false;
            if t.beh.passes() == b0.passes() {
                t.beh = if b0.passes() { Beh::FailEq } else { Beh::PassWork };
            }
        }
        9 => {
            // the same directory is tested twice; between the runs one file is edited so that its verdicts flip
            s.k = KSel::None;
            s.x = false;
            if s.rerun > 1 {
                s.rerun %= 2;
            }
            let t = &mut s.files[0].tests[0];
            t.slow = false;
        }
        _ => {}
    }
    s
}

/// Turn a generator spec into concrete files + model facts. `allow_fixture` is false when the fixture finding is open.
fn resolve(spec0: &CaseSpec, slot: usize, allow_fixture: bool, excluded_fixture: &mut u64) -> RCase {
    let spec = apply_profile(spec0, slot);
    let mut rc = render(&spec, allow_fixture, excluded_fixture);
    if spec.rerun <= 1 {
        let mut s2 = spec.clone();
        let fi = if spec.rerun == 1 { s2.files.len() - 1 } else { 0 };
        for t in s2.files[fi].tests.iter_mut() {
            t.beh = if t.beh.passes() { Beh::FailEq } else { Beh::PassPlain };
            t.n = t.n % 8 + 1;
        }
        let mut ignore = 0;
        rc.rerun = Some(Box::new(render(&s2, allow_fixture, &mut ignore)));
    }
    rc
}

fn render(spec: &CaseSpec, allow_fixture: bool, excluded_fixture: &mut u64) -> RCase {
    let mut files = Vec::new();
    let mut tests = Vec::new();
    let mut ghosts = Vec::new();
    let mut counter = 0usize;
    let mut ghost_counter = 0usize;
    let mut first_file_names: Vec<String> = Vec::new();
    let single_file_path = spec.path_style == 2 && spec.files.len() == 1;

    for (fi, f) in spec.files.iter().enumerate() {
        let base = if f.suffix_style { format!("unit{fi}_test.incn") } else { format!("test_unit{fi}.incn") };
        let rel = if fi == 1 && spec.second_in_subdir { format!("tests/sub/{base}") } else { format!("tests/{base}") };
        let wants_fixture = f.tests.iter().any(|t| t.fixture);
        if wants_fixture && !allow_fixture {
            *excluded_fixture += 1;
        }
        let uses_fixture = wants_fixture && allow_fixture;
        let mut src = String::new();
        src.push_str(&format!("\"\"\"generated test file {fi}\"\"\"\n\n"));
        if uses_fixture {
            src.push_str("from testing import assert, assert_eq, assert_ne, assert_true, assert_false, fail, fixture\n\n");
        } else {
            src.push_str("from testing import assert, assert_eq, assert_ne, assert_true, assert_false, fail\n\n");
        }
        src.push_str("def triple(x: int) -> int:\n    return x * 3\n\n");
        src.push_str("def check_equal(a: int, b: int) -> None:\n    assert_eq(a, b)\n\n");
        if uses_fixture {
            src.push_str("@fixture\ndef base_value() -> int:\n    return 40\n\n");
        }
        for t in &f.tests {
            let id = format!("t{counter}");
            let pos = tests.iter().filter(|x: &&RTest| x.file == rel).count();
            let name = if fi == 1 && spec.collide && pos < first_file_names.len() {
                // same function name as a test of the first file (marker id stays distinct)
                first_file_names[pos].clone()
            } else {
                format!("test_{}_{}_{}", WORDS[t.w1], WORDS[t.w2], counter)
            };
            if fi == 0 {
                first_file_names.push(name.clone());
            }
            counter += 1;
            let mut decorators = Vec::new();
            let (mark, reason) = match t.mark {
                Mark::None => ("none", String::new()),
                m => {
                    let dn = if m == Mark::Skip { "skip" } else { "xfail" };
                    let (text, reason) = match t.reason {
                        Reason::Text(i) => (format!("@{dn}(\"{}\")", REASONS[i]), REASONS[i].to_string()),
                        Reason::Bare => (format!("@{dn}"), String::new()),
                        Reason::EmptyParens => (format!("@{dn}()"), String::new()),
                    };
                    decorators.push(text);
                    (dn, reason)
                }
            };
            if t.slow {
                if t.slow_first {
                    decorators.insert(0, "@slow".into());
                } else {
                    decorators.push("@slow".into());
                }
            }
            let with_fixture = uses_fixture && t.fixture;
            let mut body = Vec::new();
            if with_fixture {
                body.push("assert_eq(base_value + 2, 42)".to_string());
            }
            body.extend(t.beh.body(t.n));
            let lines = marker_lines(&id, &body);
            src.push_str(&render_fn(&decorators, &name, if with_fixture { "base_value: int" } else { "" }, &lines));
            src.push('\n');
            tests.push(RTest {
                name,
                file: rel.clone(),
                id,
                beh: t.beh.name().to_string(),
                passes: t.beh.passes(),
                mark: mark.to_string(),
                reason,
                slow: t.slow,
                fixture: uses_fixture,
            });
        }
        if f.nontest_fn {
            // a function without the `test_` prefix is not a test (it contains a keyword word so that -k would match it)
            let id = format!("g{ghost_counter}");
            let name = format!("verify_{}_{}", WORDS[f.tests[0].w1], ghost_counter);
            ghost_counter += 1;
            src.push_str(&render_fn(&[], &name, "", &marker_lines(&id, &["assert_eq(triple(1), 3)".to_string()])));
            src.push('\n');
            ghosts.push(Ghost { id, name, why: "function-without-test-prefix".into() });
        }
        files.push((rel, src));
    }
    if spec.ghost_file {
        // a file whose name is neither test_*.incn nor *_test.incn is not a test file
        let id = format!("g{ghost_counter}");
        let name = format!("test_{}_hidden", WORDS[spec.files[0].tests[0].w1]);
        let mut src = String::from("\"\"\"helpers, not a test file\"\"\"\n\nfrom testing import assert_eq\n\n");
        src.push_str(&render_fn(&[], &name, "", &marker_lines(&id, &["assert_eq(1, 1)".to_string()])));
        files.push(("tests/helpers.incn".into(), src));
        ghosts.push(Ghost { id, name, why: "file-not-named-like-a-test-file".into() });
    }

    let k = match &spec.k {
        KSel::None => None,
        KSel::FromTest(raw) => {
            let all: Vec<&TestSpec> = spec.files.iter().flat_map(|f| f.tests.iter()).collect();
            let t = all[vcore::gen::idx(*raw, all.len())];
            Some(WORDS[if raw % 2 == 0 { t.w1 } else { t.w2 }].to_string())
        }
        KSel::Word(i) => Some(WORDS[*i].to_string()),
    };
    let mut args: Vec<String> = Vec::new();
    if spec.verbose {
        args.push("-v".into());
    }
    if let Some(k) = &k {
        args.push("-k".into());
        args.push(k.clone());
    }
    if spec.slow {
        args.push("--slow".into());
    }
    if spec.x {
        args.push("-x".into());
    }
    if spec.foe {
        args.push("--fail-on-empty".into());
    }
    match spec.path_style {
        0 => args.push("tests/".into()),
        1 => args.push(".".into()),
        2 if single_file_path => args.push(files[0].0.clone()),
        2 => args.push("tests".into()),
        _ => {} // default path "."
    }
    RCase { files, args, k, slow: spec.slow, x: spec.x, fail_on_empty: spec.foe, tests, ghosts, rerun: None }
}

fn rcase_to_json(rc: &RCase) -> Value {
    json!({
        "files": rc.files.iter().map(|(p, s)| json!({"path": p, "source": s})).collect::<Vec<_>>(),
        "args": rc.args,
        "k": rc.k,
        "slow": rc.slow,
        "x": rc.x,
        "fail_on_empty": rc.fail_on_empty,
        "tests": rc.tests.iter().map(|t| json!({
            "name": t.name, "file": t.file, "id": t.id, "behaviour": t.beh, "passes": t.passes,
            "mark": t.mark, "reason": t.reason, "slow": t.slow, "fixture": t.fixture,
        })).collect::<Vec<_>>(),
        "ghosts": rc.ghosts.iter().map(|g| json!({"id": g.id, "name": g.name, "why": g.why})).collect::<Vec<_>>(),
        "rerun": rc.rerun.as_ref().map(|r| rcase_to_json(r)),
    })
}

fn rcase_from_json(v: &Value) -> Option<RCase> {
    let s = |v: &Value, k: &str| v[k].as_str().map(|x| x.to_string());
    let files = v["files"].as_array()?.iter().map(|f| Some((s(f, "path")?, s(f, "source")?))).collect::<Option<Vec<_>>>()?;
    let args = v["args"].as_array()?.iter().map(|a| a.as_str().map(|x| x.to_string())).collect::<Option<Vec<_>>>()?;
    let tests = v["tests"]
        .as_array()?
        .iter()
        .map(|t| {
            Some(RTest {
                name: s(t, "name")?,
                file: s(t, "file")?,
                id: s(t, "id")?,
                beh: s(t, "behaviour").unwrap_or_default(),
                passes: t["passes"].as_bool()?,
                mark: s(t, "mark").unwrap_or_else(|| "none".into()),
                reason: s(t, "reason").unwrap_or_default(),
                slow: t["slow"].as_bool().unwrap_or(false),
                fixture: t["fixture"].as_bool().unwrap_or(false),
            })
        })
        .collect::<Option<Vec<_>>>()?;
    let ghosts = v["ghosts"]
        .as_array()
        .map(|a| {
            a.iter()
                .filter_map(|g| Some(Ghost { id: s(g, "id")?, name: s(g, "name").unwrap_or_default(), why: s(g, "why").unwrap_or_default() }))
                .collect()
        })
        .unwrap_or_default();
    Some(RCase {
        files,
        args,
        k: v["k"].as_str().map(|x| x.to_string()),
        slow: v["slow"].as_bool().unwrap_or(false),
        x: v["x"].as_bool().unwrap_or(false),
        fail_on_empty: v["fail_on_empty"].as_bool().unwrap_or(false),
        tests,
        ghosts,
        rerun: if v["rerun"].is_object() { Some(Box::new(rcase_from_json(&v["rerun"])?)) } else { None },
    })
}

// ------------------------------------------------------------------------------------------------ model

fn selected(rc: &RCase, t: &RTest) -> bool {
    if let Some(k) = &rc.k {
        if !t.name.contains(k.as_str()) {
            return false;
        }
    }
    rc.slow || !t.slow
}

fn expected_verdict(t: &RTest) -> &'static str {
    match (t.mark.as_str(), t.passes) {
        ("skip", _) => "SKIPPED",
        ("xfail", true) => "XPASS",
        ("xfail", false) => "XFAIL",
        (_, true) => "PASSED",
        (_, false) => "FAILED",
    }
}

// ------------------------------------------------------------------------------------------------ running the CLI

struct Slots(Mutex<Vec<usize>>);
impl Slots {
    fn acquire(&self) -> usize {
        loop {
            if let Some(k) = self.0.lock().unwrap().pop() {
                return k;
            }
            std::thread::sleep(Duration::from_millis(5));
        }
    }
    fn release(&self, k: usize) {
        self.0.lock().unwrap().push(k);
    }
}

#[derive(Clone, Debug, Default)]
struct Line {
    file: String,
    name: String,
    status: String,
    rest: String,
}

#[derive(Clone, Debug, Default)]
struct Obs {
    status: Option<i32>,
    signal: Option<i32>,
    stdout: String,
    stderr: String,
    infra: Option<String>,
    lines: Vec<Line>,
    collected: Option<u64>,
    summary: Option<BTreeMap<String, u64>>,
    summary_text: String,
    begin: BTreeSet<String>,
    end: BTreeSet<String>,
    rerun: Option<Box<Obs>>,
}

fn strip_ansi(s: &str) -> String {
    let mut out = String::new();
    let mut it = s.chars();
    while let Some(c) = it.next() {
        if c == '\x1b' {
            for d in it.by_ref() {
                if d.is_ascii_alphabetic() {
                    break;
                }
            }
        } else {
            out.push(c);
        }
    }
    out
}

const STATUSES: [&str; 5] = ["PASSED", "FAILED", "SKIPPED", "XFAIL", "XPASS"];

/// Parse the documented output format.
fn parse_output(stdout: &str, obs: &mut Obs) {
    let text = strip_ansi(stdout);
    for line in text.lines() {
        // `file::name STATUS[ ...]` at the start of a line
        if !line.starts_with(char::is_whitespace) {
            if let Some((file, rest)) = line.split_once("::") {
                let mut it = rest.splitn(3, ' ');
                if let (Some(name), Some(status)) = (it.next(), it.next()) {
                    if STATUSES.contains(&status) && !file.contains(' ') && file.ends_with(".incn") && !name.is_empty() {
                        obs.lines.push(Line {
                            file: file.to_string(),
                            name: name.to_string(),
                            status: status.to_string(),
                            rest: it.next().unwrap_or("").to_string(),
                        });
                        continue;
                    }
                }
            }
        }
        if let Some(rest) = line.strip_prefix("collected ") {
            if let Some(n) = rest.split_whitespace().next().and_then(|x| x.parse::<u64>().ok()) {
                obs.collected = Some(n);
            }
            continue;
        }
        // summary: `=== 2 passed, 1 failed in 0.05s ===`
        let t = line.trim().trim_matches('=').trim();
        if line.trim_start().starts_with("===") && line.trim_end().ends_with("===") {
            if let Some(pos) = t.rfind(" in ") {
                let (head, tail) = t.split_at(pos);
                let secs = tail[4..].trim();
                if secs.ends_with('s') && secs[..secs.len() - 1].parse::<f64>().is_ok() {
                    let mut m = BTreeMap::new();
                    let mut ok = true;
                    for part in head.split(',') {
                        let mut w = part.split_whitespace();
                        match (w.next().and_then(|x| x.parse::<u64>().ok()), w.next(), w.next()) {
                            (Some(n), Some(cat), None) => {
                                *m.entry(cat.to_string()).or_insert(0) += n;
                            }
                            _ => {
                                if !part.trim().is_empty() {
                                    ok = false;
                                }
                            }
                        }
                    }
                    if ok {
                        obs.summary = Some(m);
                        obs.summary_text = line.trim().to_string();
                    }
                }
            }
        }
    }
}

/// Remove the per-case harness artifacts from a worker's target directory (library artifacts stay).
fn clean_harness_artifacts(tgt: &Path) {
    for sub in ["debug/deps", "debug/.fingerprint", "debug/incremental", "debug"] {
        let d = tgt.join(sub);
        let Ok(rd) = std::fs::read_dir(&d) else { continue };
        for e in rd.flatten() {
            let n = e.file_name().to_string_lossy().to_string();
            if n.starts_with("test_runner-") || n == "test_runner" || n == "test_runner.d" {
                let p = e.path();
                if p.is_dir() {
                    let _ = std::fs::remove_dir_all(p);
                } else {
                    let _ = std::fs::remove_file(p);
                }
            }
        }
    }
}

const INFRA_PATTERNS: [&str; 6] = [
    "No space left on device",
    "Cannot allocate memory",
    "Resource temporarily unavailable",
    "failed to download",
    "Too many open files",
    "couldn't create a temp dir",
];

fn run_case(rc: &RCase, farm: &Farm, slots: &Slots) -> Obs {
    let k = slots.acquire();
    let obs = run_case_on(rc, farm, k);
    slots.release(k);
    obs
}

/// The runtime crates in the `dev` profile (what `cargo test` in the generated harness needs) are built once per
/// worker target directory; a sentinel file records that. Cold directories are warmed by running one trivial test
/// through the CLI in the first of them and copying its `debug/` tree to the others.
fn warm_target_dirs(farm: &Farm) -> Result<u64, String> {
    const SENTINEL: &str = "debug/.c16-harness-deps-warm";
    let cold: Vec<usize> = (0..farm.workers).filter(|k| !Farm::target_dir(*k).join(SENTINEL).exists()).collect();
    if cold.is_empty() {
        return Ok(0);
    }
    let trivial = RCase {
        files: vec![(
            "tests/test_warm.incn".into(),
            "from testing import assert_eq\n\ndef test_warm() -> None:\n    mb = write_file(\"@M@/t0.begin\", \"b\")\n    assert_eq(1 + 1, 2)\n    me = write_file(\"@M@/t0.end\", \"e\")\n".into(),
        )],
        args: vec!["tests/".into()],
        k: None,
        slow: false,
        x: false,
        fail_on_empty: false,
        tests: vec![],
        ghosts: vec![],
        rerun: None,
    };
    let warm_one = |k: usize| -> Result<(), String> {
        let _ = std::fs::create_dir_all(Farm::target_dir(k));
        let obs = run_case_on(&trivial, farm, k);
        if let Some(e) = obs.infra {
            return Err(e);
        }
        if obs.lines.len() != 1 {
            return Err(format!("warm-up run printed no status line: {}", util::truncate(&obs.stdout, 600)));
        }
        let _ = std::fs::write(Farm::target_dir(k).join(SENTINEL), "1");
        Ok(())
    };
    let first = cold[0];
    warm_one(first)?;
    for &k in &cold[1..] {
        let dst = Farm::target_dir(k);
        if !dst.join("debug").exists() {
            let _ = std::fs::create_dir_all(&dst);
            let ok = Command::new("cp").arg("-a").arg(Farm::target_dir(first).join("debug")).arg(dst.join("debug")).status().is_ok_and(|s| s.success());
            if ok {
                continue;
            }
        }
        warm_one(k)?;
    }
    Ok(cold.len() as u64)
}

fn run_case_on(rc: &RCase, farm: &Farm, k: usize) -> Obs {
    let dir = farm.case_dir();
    let mdir = dir.join("m");
    let tgt = Farm::target_dir(k);
    let mut obs = run_stage(rc, None, farm, &dir, &mdir, &tgt);
    if let Some(r2) = &rc.rerun {
        if obs.infra.is_none() {
            // second invocation in the same working directory after an edit: only the changed files are rewritten
            let o2 = run_stage(r2, Some(rc), farm, &dir, &mdir, &tgt);
            if let Some(e) = &o2.infra {
                obs.infra = Some(format!("re-run: {e}"));
            }
            obs.rerun = Some(Box::new(o2));
        }
    }
    clean_harness_artifacts(&tgt);
    if !farm.keep_projects {
        let _ = std::fs::remove_dir_all(&dir);
    }
    obs
}

/// One `incan test` invocation in `dir`. `prev` = the case whose files are already on disk (re-run stage).
fn run_stage(rc: &RCase, prev: Option<&RCase>, farm: &Farm, dir: &Path, mdir: &Path, tgt: &Path) -> Obs {
    let mut obs = Obs::default();
    let _ = std::fs::remove_dir_all(mdir);
    let _ = std::fs::create_dir_all(mdir);
    let mtext = mdir.to_string_lossy().to_string();
    for (rel, src) in &rc.files {
        if prev.is_some_and(|p| p.files.iter().any(|(r0, s0)| r0 == rel && s0 == src)) {
            continue;
        }
        let p = dir.join(rel);
        if let Some(parent) = p.parent() {
            let _ = std::fs::create_dir_all(parent);
        }
        if std::fs::write(&p, src.replace("@M@", &mtext)).is_err() {
            obs.infra = Some(format!("cannot write {}", p.display()));
            return obs;
        }
    }
    let mut c = Command::new(&farm.incan);
    c.arg("test").args(&rc.args).current_dir(dir);
    c.env("CARGO_TARGET_DIR", tgt)
        .env("CARGO_NET_OFFLINE", "true")
        .env("CARGO_INCREMENTAL", "0")
        .env("CARGO_PROFILE_DEV_DEBUG", "0")
        .env("CARGO_TERM_COLOR", "never")
        .env("NO_COLOR", "1")
        .env("INCAN_NO_BANNER", "1");
    let r = farm::run_cmd(c, Duration::from_secs(3600));
    if r.timed_out {
        obs.infra = Some("watchdog: incan test".into());
    }
    if r.status.is_none() && r.signal.is_none() {
        obs.infra = Some(format!("spawn failed: {}", util::truncate(&r.stderr, 200)));
    }
    for p in INFRA_PATTERNS {
        if r.stdout.contains(p) || r.stderr.contains(p) {
            obs.infra = Some(format!("tool trouble: {p}"));
        }
    }
    obs.status = r.status;
    obs.signal = r.signal;
    parse_output(&r.stdout, &mut obs);
    obs.stdout = r.stdout;
    obs.stderr = r.stderr;
    if let Ok(rd) = std::fs::read_dir(mdir) {
        for e in rd.flatten() {
            let n = e.file_name().to_string_lossy().to_string();
            if let Some(id) = n.strip_suffix(".begin") {
                obs.begin.insert(id.to_string());
            } else if let Some(id) = n.strip_suffix(".end") {
                obs.end.insert(id.to_string());
            }
        }
    }
    obs
}

// ------------------------------------------------------------------------------------------------ judge

#[derive(Clone, Debug)]
struct Fail {
    key: String,
    what: String,
}

#[derive(Default)]
struct JudgeStats {
    selected: u64,
    deselected: u64,
    executed_expected: u64,
    verdicts: BTreeMap<String, u64>,
}

/// `file name::function name`, the way the runner prints a test.
fn qual(t: &RTest) -> String {
    format!("{}::{}", t.file.rsplit('/').next().unwrap_or(&t.file), t.name)
}

/// Judge the first invocation and, when the case has one, the re-run after the edit (signatures prefixed `rerun:`).
fn judge(rc: &RCase, obs: &Obs, stats: &mut JudgeStats) -> Vec<Fail> {
    let mut fails = judge_stage(rc, obs, stats);
    if let (Some(r2), Some(o2)) = (&rc.rerun, &obs.rerun) {
        for f in judge_stage(r2, o2, stats) {
            let key = if f.key == KEY_HARNESS || f.key == KEY_FIXTURE { f.key } else { format!("rerun:{}", f.key) };
            fails.push(Fail { key, what: format!("[second run, after the edit] {}", f.what) });
        }
    }
    fails
}

fn judge_stage(rc: &RCase, obs: &Obs, stats: &mut JudgeStats) -> Vec<Fail> {
    let mut fails: Vec<Fail> = Vec::new();
    let mut push = |key: String, what: String| fails.push(Fail { key, what });

    // a test is identified by (file name, function name): the same function name may occur in several files
    let by_name: BTreeMap<String, &RTest> = rc.tests.iter().map(|t| (qual(t), t)).collect();
    let sel: BTreeSet<String> = rc.tests.iter().filter(|t| selected(rc, t)).map(qual).collect();
    stats.selected += sel.len() as u64;
    stats.deselected += (rc.tests.len() - sel.len()) as u64;
    for t in &rc.tests {
        if sel.contains(&qual(t)) {
            *stats.verdicts.entry(expected_verdict(t).to_string()).or_insert(0) += 1;
            if t.mark != "skip" {
                stats.executed_expected += 1;
            }
        }
    }

    if obs.status.is_none() {
        push("cli:terminated-by-signal".into(), format!("incan test ended with signal {:?}", obs.signal));
    }

    // ---- reported lines: every line names a selected test of the right file, once
    let mut reported: BTreeMap<String, &Line> = BTreeMap::new();
    for l in &obs.lines {
        if let Some(g) = rc.ghosts.iter().find(|g| g.name == l.name) {
            push(format!("selection:collected-a-non-test:{}", g.why), format!("`{}` was reported {}", l.name, l.status));
            continue;
        }
        let lq = format!("{}::{}", l.file, l.name);
        let Some(t) = by_name.get(&lq) else {
            if let Some(t) = rc.tests.iter().find(|t| t.name == l.name) {
                push("report:wrong-file-name".into(), format!("`{}` reported under `{}`, lives in `{}`", l.name, l.file, t.file));
            } else {
                push("report:unknown-test-name".into(), format!("`{}::{}` is not a test of the input", l.file, l.name));
            }
            continue;
        };
        if reported.insert(lq.clone(), l).is_some() {
            push("report:test-reported-twice".into(), format!("`{lq}` has two status lines"));
        }
        if !sel.contains(&lq) {
            let why = if rc.k.as_ref().is_some_and(|k| !t.name.contains(k.as_str())) { "k-does-not-match" } else { "slow-without--slow" };
            push(format!("selection:ran-deselected-test:{why}"), format!("`{}` is deselected ({why}) but was reported {}", l.name, l.status));
        }
    }

    // ---- selected tests that are not reported
    let missing: Vec<&String> = sel.iter().filter(|n| !reported.contains_key(*n)).collect();
    let mut cut_off_by_x = false;
    if rc.x {
        if let Some(p) = obs.lines.iter().position(|l| l.status == "FAILED") {
            if p + 1 != obs.lines.len() {
                push("stop-on-fail:continued-after-failure".into(), format!("-x given, FAILED is line {} of {}", p + 1, obs.lines.len()));
            }
            cut_off_by_x = true;
        } else if obs.lines.last().is_some_and(|l| l.status == "XPASS") {
            // docs call XPASS "reported as failure": stopping here under -x is accepted, so is going on
            cut_off_by_x = true;
        }
    }
    if !cut_off_by_x {
        for n in &missing {
            let t = by_name[*n];
            let why = if rc.k.is_some() { "k-matches" } else if t.slow { "slow-with--slow" } else { "plain" };
            push(format!("selection:selected-test-not-reported:{why}"), format!("`{n}` is selected ({why}) and has no status line"));
        }
    }

    // ---- `collected N item(s)`
    if !sel.is_empty() {
        match obs.collected {
            Some(n) if n == sel.len() as u64 => {}
            Some(n) => push("collected:count-mismatch".into(), format!("`collected {n} item(s)` but {} tests are selected", sel.len())),
            None => {
                if !obs.lines.is_empty() {
                    push("collected:line-missing".into(), "no `collected N item(s)` line".into());
                }
            }
        }
    }

    // ---- verdicts and execution facts per reported test
    for (name, l) in &reported {
        let t = by_name[name];
        let exp = expected_verdict(t);
        let got = l.status.as_str();
        let b = obs.begin.contains(&t.id);
        let e = obs.end.contains(&t.id);
        let facts = format!(
            "`{}` ({}, mark={}) expected {exp}, reported {got}; begin marker {}, end marker {}",
            name,
            t.beh,
            t.mark,
            if b { "present" } else { "absent" },
            if e { "present" } else { "absent" }
        );
        let mut local: Vec<(String, String)> = Vec::new();
        if (got == "PASSED" || got == "XPASS") && !b && !t.fixture {
            // the body never began although the runner claims it passed: the harness did not execute the function
            local.push((KEY_HARNESS.into(), facts.clone()));
        } else {
            if got != exp {
                local.push((format!("verdict:expected-{exp}-reported-{got}"), facts.clone()));
            }
            match got {
                "PASSED" | "XPASS" => {
                    if !b {
                        local.push((format!("exec:{got}-but-body-never-began"), facts.clone()));
                    } else if !e {
                        local.push((format!("exec:{got}-but-body-did-not-complete"), facts.clone()));
                    }
                }
                "FAILED" | "XFAIL" => {
                    if e {
                        local.push((format!("exec:{got}-but-body-completed"), facts.clone()));
                    } else if !b {
                        local.push((format!("exec:{got}-but-body-never-began"), facts.clone()));
                    }
                }
                "SKIPPED" => {
                    if b {
                        local.push(("exec:SKIPPED-but-body-ran".into(), facts.clone()));
                    }
                    if exp == "SKIPPED" && !t.reason.is_empty() && !l.rest.contains(&format!("({})", t.reason)) {
                        local.push(("report:skip-reason-not-shown".into(), format!("{facts}; line rest `{}`", l.rest)));
                    }
                }
                _ => {}
            }
        }
        if t.fixture && !local.is_empty() {
            let all: Vec<String> = local.iter().map(|(k, _)| k.clone()).collect();
            push(KEY_FIXTURE.into(), format!("{facts} [{}]", all.join(", ")));
        } else {
            for (k, w) in local {
                push(k, w);
            }
        }
    }

    // ---- tests without a status line and non-tests must not have run
    for t in &rc.tests {
        if !reported.contains_key(&qual(t)) && obs.begin.contains(&t.id) {
            let why = if sel.contains(&qual(t)) { "selected-but-unreported" } else { "deselected" };
            push(format!("exec:unreported-test-ran:{why}"), format!("`{}` has no status line but its body began", qual(t)));
        }
    }
    for g in &rc.ghosts {
        if obs.begin.contains(&g.id) {
            push(format!("exec:non-test-ran:{}", g.why), format!("`{}` is not a test but its body began", g.name));
        }
    }

    // ---- summary counts equal the printed verdicts
    let count = |s: &str| obs.lines.iter().filter(|l| l.status == s).count() as u64;
    let (np, nf, ns, nxf, nxp) = (count("PASSED"), count("FAILED"), count("SKIPPED"), count("XFAIL"), count("XPASS"));
    if !obs.lines.is_empty() {
        match &obs.summary {
            None => push("summary:line-missing".into(), "status lines were printed but no `N passed, ... in Xs` summary".into()),
            Some(m) => {
                let get = |k: &str| m.get(k).copied().unwrap_or(0);
                // XPASS may have its own category or be counted among the failures ("reported as failure")
                let merged = get("xpassed") == 0 && nxp > 0 && get("failed") == nf + nxp;
                let want: [(&str, u64); 5] = [
                    ("passed", np),
                    ("failed", if merged { nf + nxp } else { nf }),
                    ("skipped", ns),
                    ("xfailed", nxf),
                    ("xpassed", if merged { 0 } else { nxp }),
                ];
                for (cat, n) in want {
                    if get(cat) != n {
                        push(
                            format!("summary:count-mismatch:{cat}"),
                            format!("summary `{}` says {} {cat}, the status lines show {n}", obs.summary_text, get(cat)),
                        );
                    }
                }
                for (cat, n) in m {
                    if *n > 0 && !["passed", "failed", "skipped", "xfailed", "xpassed"].contains(&cat.as_str()) {
                        push("summary:unknown-category".into(), format!("summary `{}` has category `{cat}`", obs.summary_text));
                    }
                }
            }
        }
    } else if let Some(m) = &obs.summary {
        if m.values().any(|n| *n > 0) {
            push("summary:counts-without-status-lines".into(), format!("summary `{}` but no status line", obs.summary_text));
        }
    }

    // ---- exit status
    if let Some(code) = obs.status {
        if sel.is_empty() {
            if obs.lines.is_empty() {
                if rc.fail_on_empty && code == 0 {
                    push("exit:fail-on-empty-returned-zero".into(), "no test selected, --fail-on-empty given, exit status 0".into());
                }
                if !rc.fail_on_empty && code != 0 {
                    push("exit:empty-selection-returned-nonzero".into(), format!("no test selected, no --fail-on-empty, exit status {code}"));
                }
            }
        } else {
            let bad = nf + nxp > 0;
            if bad && code == 0 {
                push("exit:zero-with-failures".into(), format!("{nf} FAILED and {nxp} XPASS lines, exit status 0"));
            }
            if !bad && code != 0 && !obs.lines.is_empty() {
                push("exit:nonzero-without-failures".into(), format!("no FAILED/XPASS line, exit status {code}"));
            }
        }
    }
    fails
}

fn nontrivial(rc: &RCase) -> bool {
    let behs: BTreeSet<&str> = rc.tests.iter().map(|t| t.beh.as_str()).collect();
    behs.len() >= 2 && rc.tests.iter().any(|t| !t.passes || t.mark != "none" || t.slow)
}

fn case_hash(rc: &RCase) -> u64 {
    let mut s = String::new();
    for (p, src) in &rc.files {
        s.push_str(p);
        s.push('\n');
        s.push_str(src);
    }
    s.push_str(&rc.args.join(" "));
    if let Some(r2) = &rc.rerun {
        for (p, src) in &r2.files {
            s.push_str(p);
            s.push_str(src);
        }
    }
    util::hash_str(&s)
}

fn describe(rc: &RCase, obs: &Obs, fails: &[Fail], key: &str) -> String {
    let mut d = String::new();
    d.push_str(&format!("incan test {}\n", rc.args.join(" ")));
    for f in fails.iter().filter(|f| f.key == key) {
        d.push_str(&format!("{}\n", f.what));
    }
    d.push_str("--- expected (model of the documented runner)\n");
    let stage = |d: &mut String, rc: &RCase, obs: &Obs| {
        for t in &rc.tests {
            d.push_str(&format!("{} ({}) {}\n", qual(t), t.beh, if selected(rc, t) { expected_verdict(t) } else { "(deselected)" }));
        }
        d.push_str(&format!("--- observed: exit {:?}\n", obs.status));
        for l in &obs.lines {
            d.push_str(&format!("{}::{} {} {}\n", l.file, l.name, l.status, l.rest));
        }
        d.push_str(&format!("{}\n", obs.summary_text));
    };
    stage(&mut d, rc, obs);
    if let (Some(r2), Some(o2)) = (&rc.rerun, &obs.rerun) {
        d.push_str("--- second run in the same directory after editing a file: expected\n");
        stage(&mut d, r2, o2);
    }
    d
}

fn sample_json(rc: &RCase, obs: &Obs) -> Value {
    json!({
        "args": rc.args,
        "files": rc.files.iter().map(|(p, s)| json!({"path": p, "source": util::truncate(s, 1500)})).collect::<Vec<_>>(),
        "expected": rc.tests.iter().map(|t| format!("{} {}", qual(t), if selected(rc, t) { expected_verdict(t) } else { "deselected" })).collect::<Vec<_>>(),
        "observed_lines": obs.lines.iter().map(|l| format!("{}::{} {}", l.file, l.name, l.status)).collect::<Vec<_>>(),
        "observed_summary": obs.summary_text,
        "observed_exit": obs.status,
        "begin_markers": obs.begin.iter().cloned().collect::<Vec<_>>(),
        "end_markers": obs.end.iter().cloned().collect::<Vec<_>>(),
        "second_run_after_edit": match (&rc.rerun, &obs.rerun) {
            (Some(r2), Some(o2)) => json!({
                "edited_files": r2.files.iter().filter(|(p, s)| !rc.files.iter().any(|(p0, s0)| p0 == p && s0 == s)).map(|(p, _)| p.clone()).collect::<Vec<_>>(),
                "expected": r2.tests.iter().map(|t| format!("{} {}", qual(t), if selected(r2, t) { expected_verdict(t) } else { "deselected" })).collect::<Vec<_>>(),
                "observed_lines": o2.lines.iter().map(|l| format!("{}::{} {}", l.file, l.name, l.status)).collect::<Vec<_>>(),
                "observed_summary": o2.summary_text,
                "observed_exit": o2.status,
            }),
            _ => Value::Null,
        },
    })
}

fn main() {
    let args = Args::parse("C16");
    util::install_quiet_panic_hook();
    let mut out = Outcome::new("C16");
    let mut ev = Evidence::new(
        &args,
        "a case is one `incan test` invocation on a generated directory (1-2 test files, 1-6 test functions, flags; with \
         two files the second may reuse the first file's function names; optionally a second invocation in the same \
         directory after one file was edited so that its verdicts flip). It is \
         non-trivial if its functions show >= 2 different body behaviours and at least one function fails, panics or \
         carries a marker (@skip/@xfail/@slow). Distinct = hash of all file texts + the CLI arguments.",
    );
    ev.assume("-k keywords are whole words of the function names and never occur in file or directory names, so substring and word matching coincide");
    ev.assume("the order in which tests run is not documented: under -x any single FAILED test may be the last one reported; stopping at an XPASS is accepted as well");
    ev.assume("XPASS may be counted as `xpassed` or among `failed` in the summary (docs: 'reported as failure')");
    ev.assume("exit status: only zero / non-zero is judged");

    let farm = Farm::new("c16");
    let slots = Slots(Mutex::new((0..farm.workers).rev().collect()));
    let harness_known = out.is_known(KEY_HARNESS);
    let fixture_known = out.is_known(KEY_FIXTURE);

    // ---- first step: make sure every worker target dir has the harness dependencies in the `dev` profile
    match warm_target_dirs(&farm) {
        Ok(n) => ev.set("target_dirs_warmed_in_this_run", json!(n)),
        Err(e) => {
            out.inconclusive(&format!("warm-up of the harness dependencies failed: {e}"));
            std::process::exit(out.finish(&ev));
        }
    }
    if args.flag("warm").is_some() {
        // `c16 --warm all`: setup helper, no verdict
        println!("c16: harness dependencies warm in {} target dirs", farm.workers);
        std::process::exit(0);
    }

    // ---- replay of one saved input
    if let Some(path) = &args.replay {
        let text = std::fs::read_to_string(path).unwrap_or_default();
        let Some(rc) = serde_json::from_str::<Value>(&text).ok().and_then(|v| rcase_from_json(&v)) else {
            out.inconclusive(&format!("cannot read replay file {}", path.display()));
            std::process::exit(out.finish(&ev));
        };
        let obs = run_case(&rc, &farm, &slots);
        if let Some(e) = &obs.infra {
            out.inconclusive(e);
        }
        let mut st = JudgeStats::default();
        let fails = judge(&rc, &obs, &mut st);
        ev.case(if nontrivial(&rc) { Some(case_hash(&rc)) } else { None });
        ev.sample(sample_json(&rc, &obs));
        let keys: BTreeSet<String> = fails.iter().map(|f| f.key.clone()).collect();
        for key in keys {
            if out.is_known(&key) {
                out.known_replayed(&key, true);
            } else {
                let body = serde_json::to_string_pretty(&rcase_to_json(&rc)).unwrap();
                out.violation(&mut ev, &key, "json", &body, &describe(&rc, &obs, &fails, &key));
            }
        }
        std::process::exit(out.finish(&ev));
    }

    // ---- canonical inputs of open known findings
    let known_entries = out.known.open.clone();
    for e in &known_entries {
        let text = std::fs::read_to_string(&e.replay).unwrap_or_default();
        let Some(rc) = serde_json::from_str::<Value>(&text).ok().and_then(|v| rcase_from_json(&v)) else {
            out.inconclusive(&format!("known finding {}: cannot read {}", e.key, e.replay.display()));
            continue;
        };
        let obs = run_case(&rc, &farm, &slots);
        if let Some(err) = &obs.infra {
            out.inconclusive(err);
            continue;
        }
        let mut st = JudgeStats::default();
        let fails = judge(&rc, &obs, &mut st);
        out.known_replayed(&e.key, fails.iter().any(|f| f.key == e.key));
        for f in &fails {
            if !out.is_known(&f.key) && !out.seen(&f.key) {
                let body = serde_json::to_string_pretty(&rcase_to_json(&rc)).unwrap();
                out.violation(&mut ev, &f.key, "json", &body, &describe(&rc, &obs, &fails, &f.key));
            }
        }
    }

    // ---- generated cases
    let n_cases = args.tier.pick(10usize, 88usize);
    // every shrink step is a full CLI run of the candidate case; VERIF_SHRINK_ITERS overrides the bound (0 = report unshrunk)
    let shrink_iters = std::env::var("VERIF_SHRINK_ITERS").ok().and_then(|v| v.parse().ok()).unwrap_or(args.tier.pick(4usize, 10usize));
    let strat = case_strat();
    let mut runner = vcore::gen::runner(args.subseed(16));
    let mut trees = vcore::gen::batch(&strat, &mut runner, n_cases);
    let mut excluded_fixture = 0u64;
    let rcases: Vec<RCase> =
        trees.iter().enumerate().map(|(i, t)| resolve(&t.current(), i, !fixture_known, &mut excluded_fixture)).collect();
    if excluded_fixture > 0 {
        ev.exclude_n(KEY_FIXTURE, excluded_fixture);
    }
    let observations: Vec<Obs> = farm.par_map(&rcases, |rc| run_case(rc, &farm, &slots));

    let mut stats = JudgeStats::default();
    let mut executed_observed = 0u64;
    let mut shrinks_done = 0usize;
    for (i, (rc, obs)) in rcases.iter().zip(observations.iter()).enumerate() {
        ev.case(if nontrivial(rc) { Some(case_hash(rc)) } else { None });
        for t in &rc.tests {
            ev.class(&format!("behaviour:{}", t.beh));
            ev.class(&format!("marker:{}{}", t.mark, if t.slow { "+slow" } else { "" }));
            if t.fixture {
                ev.class("file-uses-fixture");
            }
        }
        for g in &rc.ghosts {
            ev.class(&format!("non-test:{}", g.why));
        }
        ev.class(&format!("scenario:{}", PROFILES[i % PROFILES.len()]));
        {
            let mut names: BTreeMap<&str, BTreeSet<&str>> = BTreeMap::new();
            for t in &rc.tests {
                names.entry(t.name.as_str()).or_default().insert(t.file.as_str());
            }
            let shared = names.values().filter(|f| f.len() > 1).count() as u64;
            if shared > 0 {
                ev.class("case-with-same-test-name-in-two-files");
                ev.class_n("test-names-shared-by-two-files", shared);
            }
            if rc.rerun.is_some() {
                ev.class("case-rerun-after-edit");
            }
        }
        ev.class(&format!("files:{}", rc.files.iter().filter(|(p, _)| p != "tests/helpers.incn").count()));
        for a in &rc.args {
            if a.starts_with('-') {
                ev.class(&format!("flag:{a}"));
            }
        }
        ev.class(&format!(
            "path:{}",
            match rc.args.last().map(|s| s.as_str()) {
                Some("tests/") | Some("tests") => "directory",
                Some(".") => "dot",
                Some(p) if p.ends_with(".incn") => "single-file",
                _ => "default",
            }
        ));
        if rc.tests.iter().all(|t| !selected(rc, t)) {
            ev.class("selection:empty");
        }
        executed_observed += obs.begin.len() as u64 + obs.rerun.as_ref().map(|o| o.begin.len() as u64).unwrap_or(0);
        if let Some(e) = &obs.infra {
            out.inconclusive(&format!("case {i}: {e}"));
            continue;
        }
        let fails = judge(rc, obs, &mut stats);
        if i < 8 {
            ev.sample(sample_json(rc, obs));
        }
        let keys: BTreeSet<String> = fails.iter().map(|f| f.key.clone()).collect();
        for key in keys {
            if out.is_known(&key) {
                ev.exclude_n(&key, fails.iter().filter(|f| f.key == key).count() as u64);
                continue;
            }
            if out.seen(&key) {
                ev.violations += 1;
                continue;
            }
            // shrink (bounded: every step costs one CLI run, so only the first two signatures of a run are shrunk),
            // keeping the signature
            shrinks_done += 1;
            let iters = if shrinks_done <= 2 { shrink_iters } else { 0 };
            let small_spec = vcore::gen::shrink(&mut trees[i], iters, |spec: &CaseSpec| {
                let mut x = 0;
                let rc2 = resolve(spec, i, !fixture_known, &mut x);
                let obs2 = run_case(&rc2, &farm, &slots);
                let mut st = JudgeStats::default();
                obs2.infra.is_none() && judge(&rc2, &obs2, &mut st).iter().any(|f| f.key == key)
            });
            let mut x = 0;
            let rc2 = resolve(&small_spec, i, !fixture_known, &mut x);
            let obs2 = run_case(&rc2, &farm, &slots);
            let mut st = JudgeStats::default();
            let fails2 = judge(&rc2, &obs2, &mut st);
            let (rcr, obsr, failsr) = if fails2.iter().any(|f| f.key == key) { (&rc2, &obs2, &fails2) } else { (rc, obs, &fails) };
            let body = serde_json::to_string_pretty(&rcase_to_json(rcr)).unwrap();
            out.violation(&mut ev, &key, "json", &body, &describe(rcr, obsr, failsr, &key));
        }
    }
    ev.set("test_functions_generated", json!(rcases.iter().map(|r| r.tests.len() as u64).sum::<u64>()));
    ev.set("test_functions_selected", json!(stats.selected));
    ev.set("test_functions_deselected", json!(stats.deselected));
    ev.set("test_functions_expected_to_execute", json!(stats.executed_expected));
    ev.set("test_bodies_observed_to_begin", json!(executed_observed));
    ev.set("expected_verdicts", json!(stats.verdicts));
    ev.set("execution_legs_blinded_by_known_finding", json!(harness_known));
    let _ = trees.first().map(|t| t.current());
    std::process::exit(out.finish(&ev));
}
