//! Developer tool: print N generated G-prog programs with their expected output.
use proptest::strategy::ValueTree;
use vcore::gprog::*;
fn main() {
    let n: usize = std::env::args().nth(1).and_then(|s| s.parse().ok()).unwrap_or(3);
    let seed: u64 = std::env::args().nth(2).and_then(|s| s.parse().ok()).unwrap_or(1);
    let outdir = std::env::args().nth(3);
    let mut runner = vcore::gen::runner(seed);
    let strat = proptest::collection::vec(proptest::num::u32::ANY, 50..600);
    let trees = vcore::gen::batch(&strat, &mut runner, n);
    let cfg = Cfg::default();
    for (i, t) in trees.iter().enumerate() {
        let tape = t.current();
        let p = vcore::gprog_gen::generate(&tape, &cfg);
        let src = render(&p, &Names::default());
        if let Some(d) = &outdir {
            std::fs::create_dir_all(d).unwrap();
            std::fs::write(format!("{d}/g{i}.incn"), &src).unwrap();
        } else {
            println!("# ---- program {i} tags={:?}", p.tags);
            println!("{src}");
        }
        match expected(&p) {
            Ok(e) => {
                if outdir.is_none() { println!("# expected: {:?}\n# end: {:?}", e.lines, e.end); }
                else { std::fs::write(format!("{}/g{i}.expected", outdir.as_ref().unwrap()), format!("{:?}\n{:?}\n", e.lines, e.end)).unwrap(); }
            }
            Err(d) => println!("# g{i} discard: {:?}", d),
        }
    }
}
