//! C09 — formatting is idempotent and consistent with `--check` / `--diff`.
//!
//! For every parseable x with y = format_source(x) that parses again (otherwise the case is C08's: `blocked_by_C08`):
//!   fmt(y) == y, check_formatted(y) == Ok(true), format_diff(y) == Ok(None), y ends with exactly one '\n', and with
//!   string / f-string / byte-string / docstring token spans of y masked (found by lexing y) there is no '\t' and no
//!   whitespace before a '\n'.
//! CLI leg (real binary, temp dir under work/c09-*): `--check` and `--diff` on an unformatted file exit 1 and leave the
//! bytes (and mtime) untouched; `incan fmt F` rewrites F to exactly format_source(x); afterwards `--check`/`--diff`
//! exit 0 and leave F untouched.

use incan_syntax::lexer::{self, TokenKind};
use proptest::strategy::ValueTree;
use rayon::prelude::*;
use serde_json::json;
use std::collections::{BTreeMap, BTreeSet};
use vcore::fmtoracle::{self, KnownDef, RoundTrip};
use vcore::gsyn::{self, Tag};
use vcore::{farm, util, Args, Evidence, Known, Outcome};

/// C09's own recorded findings: (key, G-syn switch / ast tag of the construct, None = every input).
/// C09's findings are tolerated per failure (key + construct present), not switched off in the generator: the legs are
/// independent, so every other failure of the same file is still reported.
const C09_KNOWN: &[(&str, Option<Tag>)] = &[
    ("final-newline:2", None),
    ("final-newline:3+", Some("shape.block_expr_ends_file")),
    ("trailing-ws:arrow", Some("arm.body.block")),
    ("trailing-ws:import", Some("import.path.empty")),
];

/// open C08 findings (set once in main): failures they explain stay C08's
static C08_ACTIVE: std::sync::OnceLock<Vec<&'static KnownDef>> = std::sync::OnceLock::new();

struct Fail {
    key: String,
    what: String,
}

enum Judged {
    /// x does not parse
    Discard(String),
    /// fmt(x) failed / does not parse: C08's business
    Blocked(String),
    Done { fails: Vec<Fail>, tags: BTreeSet<Tag>, formatted: String },
}

fn line_head(line: &str) -> String {
    let t = line.trim_start();
    let word: String = t.chars().take_while(|c| c.is_ascii_alphanumeric() || *c == '_' || *c == '@').collect();
    if word.starts_with('@') {
        "@".into()
    } else if incan_core::lang::keywords::from_str(&word).is_some() {
        word
    } else if t.starts_with('"') {
        "string".into()
    } else {
        "_".into()
    }
}

/// byte mask of string-like token spans (true = inside a string / f-string / byte string / docstring token)
fn string_mask(y: &str) -> Option<Vec<bool>> {
    let tokens = lexer::lex(y).ok()?;
    let mut mask = vec![false; y.len()];
    for t in tokens {
        if matches!(t.kind, TokenKind::String(_) | TokenKind::FString(_) | TokenKind::Bytes(_)) {
            for m in mask.iter_mut().take(t.span.end.min(y.len())).skip(t.span.start) {
                *m = true;
            }
        }
    }
    Some(mask)
}

fn judge(x: &str) -> Judged {
    judge_with(x, None)
}

/// `fcfg`: formatter configuration for both passes (None = default). `check_formatted` / `format_diff` have no
/// configuration parameter, so those two legs are only judged under the default configuration.
fn judge_with(x: &str, fcfg: Option<&incan::FormatConfig>) -> Judged {
    let a1 = match util::catch(|| gsyn::parse(x)) {
        Ok(Ok(p)) => p,
        Ok(Err(e)) => return Judged::Discard(e),
        Err(p) => return Judged::Discard(format!("front end panicked: {p}")),
    };
    let tags = gsyn::ast_tags(&a1);
    let y = match util::catch(|| fmtoracle::format_with(x, fcfg)) {
        Ok(Ok(y)) => Some(y),
        _ => None,
    };
    let parses = y.as_ref().is_some_and(|y| matches!(util::catch(|| gsyn::parse(y)), Ok(Ok(_))));
    if !parses {
        // fmt(x) failed or is not a program any more: fmt(fmt(x)) cannot equal fmt(x) and `--check` cannot succeed on
        // the rewritten file. If an *open* C08 finding explains it the case stays C08's (blocked, counted);
        // otherwise it is a violation of this property as well.
        if let RoundTrip::Fail { failure, .. } = fmtoracle::roundtrip_with(x, fcfg) {
            let active = C08_ACTIVE.get().map(|v| v.as_slice()).unwrap_or(&[]);
            if let Some(d) = fmtoracle::attribute(&failure, &tags, active) {
                return Judged::Blocked(format!("open C08 finding {}", d.key));
            }
            let short = failure.sig.split(", found").next().unwrap_or(&failure.sig).to_string();
            let key = if y.is_some() { format!("idem:formatted-output-not-parseable:{short}") } else { format!("idem:format-failed:{short}") };
            let what = format!("fmt(x) is not parseable, so fmt(fmt(x)) is an error and `incan fmt --check` fails on the rewritten file: {}", failure.detail);
            return Judged::Done { fails: vec![Fail { key, what }], tags, formatted: y.unwrap_or_default() };
        }
        return Judged::Blocked("formatted text does not parse".into());
    }
    let y = y.unwrap_or_default();
    let mut fails = Vec::new();
    // 1. idempotence
    match util::catch(|| fmtoracle::format_with(&y, fcfg)) {
        Ok(Ok(z)) => {
            if z != y {
                let (ly, lz): (Vec<&str>, Vec<&str>) = (y.split('\n').collect(), z.split('\n').collect());
                let i = (0..ly.len().max(lz.len())).find(|&i| ly.get(i) != lz.get(i)).unwrap_or(0);
                let (a, b) = (ly.get(i).copied().unwrap_or("<eof>"), lz.get(i).copied().unwrap_or("<eof>"));
                let kind = if a.trim().is_empty() || b.trim().is_empty() {
                    "blank-line".to_string()
                } else if a.trim() == b.trim() {
                    "indentation".to_string()
                } else {
                    "content".to_string()
                };
                fails.push(Fail { key: format!("idem:{kind}"), what: format!("fmt(fmt(x)) != fmt(x) at line {}:\n  first:  {a:?}\n  second: {b:?}", i + 1) });
            }
        }
        Ok(Err(e)) => fails.push(Fail { key: "idem:second-format-error".into(), what: format!("format_source(fmt(x)) returned Err: {e}") }),
        Err(p) => fails.push(Fail { key: "idem:second-format-panic".into(), what: format!("format_source(fmt(x)) panicked: {p}") }),
    }
    // 2./3. check and diff agree
    match util::catch(|| incan::check_formatted(&y)) {
        _ if fcfg.is_some() => {}
        Ok(Ok(true)) => {}
        other => fails.push(Fail { key: "check-disagrees".into(), what: format!("check_formatted(fmt(x)) = {:?}", other.map(|r| r.map_err(|e| e.to_string()))) }),
    }
    match util::catch(|| incan::format_diff(&y)) {
        _ if fcfg.is_some() => {}
        Ok(Ok(None)) => {}
        other => {
            fails.push(Fail { key: "diff-disagrees".into(), what: format!("format_diff(fmt(x)) = {:?}", other.map(|r| r.map(|d| d.map(|s| util::truncate(&s, 200))).map_err(|e| e.to_string()))) })
        }
    }
    // 4. exactly one final newline
    let n = y.len() - y.trim_end_matches('\n').len();
    if n != 1 {
        let c = match n {
            0 => "0",
            2 => "2",
            _ => "3+",
        };
        fails.push(Fail { key: format!("final-newline:{c}"), what: format!("formatted text ends with {n} newline characters") });
    }
    // 5. tabs / trailing whitespace outside string tokens
    if let Some(mask) = string_mask(&y) {
        let bytes = y.as_bytes();
        let mut line_start = 0;
        for (i, &b) in bytes.iter().enumerate() {
            if b == b'\n' {
                if i > line_start && !mask[i] && !mask[i - 1] && (bytes[i - 1] == b' ' || bytes[i - 1] == b'\t' || bytes[i - 1] == b'\r') {
                    let line = &y[line_start..i];
                    let kind = if line.trim_end().ends_with("=>") { "arrow".to_string() } else { line_head(line) };
                    fails.push(Fail { key: format!("trailing-ws:{kind}"), what: format!("trailing whitespace outside strings: {line:?}") });
                }
                line_start = i + 1;
            } else if b == b'\t' && !mask[i] {
                let line = y[line_start..].lines().next().unwrap_or("");
                let kind = if y[line_start..i].trim().is_empty() { "tab:indentation" } else { "tab:inline" };
                if !fails.iter().any(|f| f.key == kind) {
                    fails.push(Fail { key: kind.to_string(), what: format!("tab outside strings: {line:?}") });
                }
            }
        }
    }
    Judged::Done { fails, tags, formatted: y }
}

/// Is this failure explained by an open finding of C09 (given the constructs present)?
fn known_key(f: &Fail, tags: &BTreeSet<Tag>, known: &Known) -> Option<&'static str> {
    C09_KNOWN.iter().find(|(k, sw)| *k == f.key && known.has(k) && sw.is_none_or(|s| tags.contains(s))).map(|(k, _)| *k)
}

fn nontrivial(tags: &BTreeSet<Tag>) -> bool {
    tags.contains("shape.nested_block_ends_body")
        || tags.contains("decl.docstring")
        || tags.contains("shape.match_statement")
        || tags.iter().filter(|t| t.starts_with("decl.")).count() >= 2
}

struct Found {
    key: String,
    source: String,
    what: String,
    /// (generator class, chunk seed, case index) of a generated case: shrunk lazily when the signature is reported
    gen: Option<(u8, u64, usize)>,
}

#[derive(Default)]
struct ChunkOut {
    cases: u64,
    nontrivial: Vec<u64>,
    noise: u64,
    blocked: BTreeMap<String, u64>,
    excluded: BTreeMap<&'static str, u64>,
    classes: BTreeMap<&'static str, u64>,
    found: Vec<Found>,
    violations: u64,
    samples: Vec<(String, String)>,
    /// (source, formatted) candidates for the CLI leg
    cli: Vec<(String, String)>,
    /// cases whose formatted text does not parse (default config): the CLI leg must see `--check` fail after `fmt`
    cli_priority: Vec<(String, String)>,
    deeper_32: u64,
    max_indent: usize,
    nondefault_config: u64,
}

const CLASS_NAMES: [&str; 4] = ["gsyn_programs", "stress_deep_nesting", "stress_long_constructs", "stress_many_declarations"];

fn class_strategy(class: u8, cfg: &gsyn::GsynConfig) -> proptest::strategy::BoxedStrategy<gsyn::GProgram> {
    match class {
        1 => gsyn::stress::deep(cfg),
        2 => gsyn::stress::long(cfg),
        3 => gsyn::stress::many(cfg),
        _ => gsyn::program_tree(cfg),
    }
}

fn case_config(class: u8, k: usize) -> Option<incan::FormatConfig> {
    if class != 0 {
        fmtoracle::config(k)
    } else if k % 8 == 7 {
        fmtoracle::config(1 + (k / 8) % 5)
    } else {
        None
    }
}

fn run_chunk(class: u8, idx: usize, n: usize, seed: u64, cfg: &gsyn::GsynConfig, known: &Known) -> ChunkOut {
    let mut out = ChunkOut::default();
    let strat = class_strategy(class, cfg);
    let mut runner = vcore::gen::runner(seed);
    let trees = vcore::gen::batch(&strat, &mut runner, n);
    let mut seen: BTreeSet<String> = BTreeSet::new();
    for (k, tree) in trees.iter().enumerate() {
        let p = gsyn::render(&tree.current());
        out.cases += 1;
        if !p.parsed {
            out.noise += 1;
            continue;
        }
        let fcfg = case_config(class, k);
        match judge_with(&p.source, fcfg.as_ref()) {
            Judged::Discard(_) => out.noise += 1,
            Judged::Blocked(why) => *out.blocked.entry(why).or_insert(0) += 1,
            Judged::Done { fails, tags, formatted } => {
                if nontrivial(&tags) {
                    out.nontrivial.push(util::hash_str(&p.source));
                }
                for (t, c) in [
                    ("nested_block_ends_body", "shape.nested_block_ends_body"),
                    ("module_docstring", "decl.docstring"),
                    ("match_statement", "shape.match_statement"),
                    ("block_expr_value", "shape.block_expr_value"),
                ] {
                    if tags.contains(c) {
                        *out.classes.entry(t).or_insert(0) += 1;
                    }
                }
                let indent = gsyn::max_indent_columns(&formatted);
                out.max_indent = out.max_indent.max(indent);
                if indent > 32 {
                    out.deeper_32 += 1;
                }
                if fcfg.is_some() {
                    out.nondefault_config += 1;
                }
                if idx < 3 && class == 0 && k % 50 == 3 && out.samples.len() < 2 {
                    out.samples.push((p.source.clone(), formatted.clone()));
                }
                if ((class == 0 && idx < 40) || (class == 1 && idx < 3)) && fcfg.is_none() && out.cli.is_empty() && k % 17 == 5 && formatted != p.source && p.source.len() < 6000 {
                    out.cli.push((p.source.clone(), formatted.clone()));
                }
                if fcfg.is_none() && out.cli_priority.is_empty() && fails.iter().any(|f| f.key.starts_with("idem:formatted-output-not-parseable")) && p.source.len() < 8000 {
                    out.cli_priority.push((p.source.clone(), formatted.clone()));
                }
                for f in fails {
                    if let Some(key) = known_key(&f, &tags, known) {
                        *out.excluded.entry(key).or_insert(0) += 1;
                        continue;
                    }
                    out.violations += 1;
                    if seen.insert(f.key.clone()) {
                        let what = format!("{}\n--- input ---\n{}\n--- formatted ---\n{}", f.what, util::truncate(&p.source, 1200), util::truncate(&formatted, 1200));
                        out.found.push(Found { key: f.key.clone(), source: p.source.clone(), what, gen: Some((class, seed, k)) });
                    }
                }
            }
        }
    }
    out
}

fn shrink_generated(class: u8, seed: u64, k: usize, key: &str, cfg: &gsyn::GsynConfig, known: &Known) -> Option<(String, String)> {
    let strat = class_strategy(class, cfg);
    let fcfg = case_config(class, k);
    let mut runner = vcore::gen::runner(seed);
    let mut trees = vcore::gen::batch(&strat, &mut runner, k + 1);
    let tree = trees.last_mut()?;
    let small = vcore::gen::shrink(tree, 600, |t| {
        let q = gsyn::render(t);
        q.parsed && matches!(judge_with(&q.source, fcfg.as_ref()), Judged::Done { ref fails, ref tags, .. } if fails.iter().any(|g| g.key == key && known_key(g, tags, known).is_none()))
    });
    let q = gsyn::render(&small);
    match judge_with(&q.source, fcfg.as_ref()) {
        Judged::Done { fails, formatted, .. } => {
            let f = fails.into_iter().find(|g| g.key == key)?;
            Some((q.source.clone(), format!("{}\nformat config: {fcfg:?} (None = default; --replay tries all of fmtoracle::config)\n--- input (shrunk) ---\n{}\n--- formatted ---\n{}", f.what, util::truncate(&q.source, 1200), util::truncate(&formatted, 1200))))
        }
        _ => None,
    }
}

fn report(out: &mut Outcome, ev: &mut Evidence, f: &Found, shrink: Option<(&gsyn::GsynConfig, &Known)>) {
    if out.seen(&f.key) || out.violations.len() >= out.max_reports {
        ev.violations += 1;
        return;
    }
    if let (Some((class, seed, k)), Some((cfg, known))) = (f.gen, shrink) {
        if let Some((source, what)) = shrink_generated(class, seed, k, &f.key, cfg, known) {
            out.violation(ev, &f.key, "incn", &source, &what);
            return;
        }
    }
    out.violation(ev, &f.key, "incn", &f.source, &f.what);
}

fn judge_text_and_report(name: &str, text: &str, known: &Known, out: &mut Outcome, ev: &mut Evidence) -> &'static str {
    // non-default formatter configurations first (their failures are reported, the default run decides the class)
    // (doc snippets are judged under the default configuration only: fixed work budget)
    let n_cfg = if name.contains("#") && name.contains(".md") { 1 } else { 6 };
    for i in 1..n_cfg {
        let c = fmtoracle::config(i);
        if let Judged::Done { fails, tags, formatted } = judge_with(text, c.as_ref()) {
            for f in fails {
                if let Some(k) = known_key(&f, &tags, known) {
                    ev.exclude(k);
                    continue;
                }
                let what = format!("origin: {name} under format config {c:?}\n{}\n--- input ---\n{}\n--- formatted ---\n{}", f.what, util::truncate(text, 1200), util::truncate(&formatted, 1200));
                report(out, ev, &Found { key: f.key, source: text.to_string(), what, gen: None }, None);
            }
        }
    }
    match judge(text) {
        Judged::Discard(_) => {
            ev.discard("input does not parse");
            "discard"
        }
        Judged::Blocked(_) => {
            ev.add("blocked_by_C08", 1);
            "blocked"
        }
        Judged::Done { fails, tags, formatted } => {
            ev.case(if nontrivial(&tags) { Some(util::hash_str(text)) } else { None });
            for f in fails {
                if let Some(k) = known_key(&f, &tags, known) {
                    ev.exclude(k);
                    continue;
                }
                let what = format!("origin: {name}\n{}\n--- input ---\n{}\n--- formatted ---\n{}", f.what, util::truncate(text, 1200), util::truncate(&formatted, 1200));
                report(out, ev, &Found { key: f.key, source: text.to_string(), what, gen: None }, None);
            }
            "judged"
        }
    }
}

// ---------------------------------------------------------------------------------------------------------------
// CLI leg
// ---------------------------------------------------------------------------------------------------------------

fn cli_leg(files: &[(String, String)], seed: u64, out: &mut Outcome, ev: &mut Evidence) {
    let bin = farm::incan_bin();
    if !bin.exists() {
        out.inconclusive(&format!("incan binary not found at {}", bin.display()));
        return;
    }
    let dir = vcore::verif_root().join("work").join(format!("c09-{seed}"));
    let _ = std::fs::remove_dir_all(&dir);
    if std::fs::create_dir_all(&dir).is_err() {
        out.inconclusive("cannot create the CLI scratch directory");
        return;
    }
    let run = |args: &[&str], file: &std::path::Path| {
        let mut c = std::process::Command::new(&bin);
        c.arg("fmt");
        c.args(args);
        c.arg(file);
        c.current_dir(&dir);
        farm::run_cmd(c, std::time::Duration::from_secs(60))
    };
    let mut cli_fail = |out: &mut Outcome, ev: &mut Evidence, key: &str, src: &str, what: String| {
        report(out, ev, &Found { key: format!("cli:{key}"), source: src.to_string(), what, gen: None }, None);
    };
    for (i, (src, expected)) in files.iter().enumerate() {
        let file = dir.join(format!("case{i}.incn"));
        if std::fs::write(&file, src).is_err() {
            out.inconclusive("cannot write a CLI case file");
            return;
        }
        let mtime0 = std::fs::metadata(&file).and_then(|m| m.modified()).ok();
        ev.class("cli_files");
        for mode in ["--check", "--diff"] {
            let r = run(&[mode], &file);
            if r.timed_out || r.status.is_none() {
                out.inconclusive(&format!("incan fmt {mode} did not finish: {}", util::truncate(&r.stderr, 200)));
                continue;
            }
            let now = std::fs::read_to_string(&file).unwrap_or_default();
            let mtime1 = std::fs::metadata(&file).and_then(|m| m.modified()).ok();
            ev.add("cli_commands", 1);
            if now != *src || mtime0 != mtime1 {
                cli_fail(out, ev, &format!("{}-modifies-file", &mode[2..]), src, format!("`incan fmt {mode}` changed the file (bytes equal: {}, mtime equal: {})", now == *src, mtime0 == mtime1));
            }
            if r.status != Some(1) {
                cli_fail(out, ev, &format!("{}-exit-on-unformatted", &mode[2..]), src, format!("`incan fmt {mode}` on an unformatted file exited with {:?} (expected 1)\nstdout: {}\nstderr: {}", r.status, util::truncate(&r.stdout, 300), util::truncate(&r.stderr, 300)));
            }
        }
        let r = run(&[], &file);
        ev.add("cli_commands", 1);
        if r.timed_out || r.status.is_none() {
            out.inconclusive("incan fmt did not finish");
            continue;
        }
        let written = std::fs::read_to_string(&file).unwrap_or_default();
        if r.status != Some(0) {
            cli_fail(out, ev, "fmt-exit", src, format!("`incan fmt F` exited with {:?}\nstderr: {}", r.status, util::truncate(&r.stderr, 300)));
        }
        if written != *expected {
            cli_fail(out, ev, "fmt-differs-from-api", src, "`incan fmt F` wrote something else than format_source(x)".to_string());
        }
        let mtime2 = std::fs::metadata(&file).and_then(|m| m.modified()).ok();
        for mode in ["--check", "--diff"] {
            let r = run(&[mode], &file);
            ev.add("cli_commands", 1);
            let now = std::fs::read_to_string(&file).unwrap_or_default();
            let mtime3 = std::fs::metadata(&file).and_then(|m| m.modified()).ok();
            if r.status != Some(0) {
                cli_fail(out, ev, &format!("{}-after-fmt", &mode[2..]), src, format!("`incan fmt {mode}` right after `incan fmt` exited with {:?}\nstdout: {}", r.status, util::truncate(&r.stdout, 300)));
            }
            if now != written || mtime2 != mtime3 {
                cli_fail(out, ev, &format!("{}-modifies-file", &mode[2..]), src, format!("`incan fmt {mode}` changed an already formatted file"));
            }
        }
    }
    let _ = std::fs::remove_dir_all(&dir);
}

fn doc_blocks() -> Vec<(String, String)> {
    fn walk(dir: &std::path::Path, out: &mut Vec<std::path::PathBuf>) {
        let Ok(rd) = std::fs::read_dir(dir) else { return };
        let mut entries: Vec<_> = rd.flatten().map(|e| e.path()).collect();
        entries.sort();
        for p in entries {
            if p.is_dir() {
                walk(&p, out);
            } else if p.extension().is_some_and(|e| e == "md") {
                out.push(p);
            }
        }
    }
    let mut files = Vec::new();
    walk(&vcore::repo_root().join("workspaces/docs-site/docs"), &mut files);
    let mut blocks = Vec::new();
    for f in files {
        let Ok(text) = std::fs::read_to_string(&f) else { continue };
        let mut cur: Option<(String, usize)> = None;
        let mut n = 0;
        for line in text.lines() {
            let t = line.trim_start();
            match &mut cur {
                None => {
                    if t.starts_with("```incan") || t.starts_with("```incn") {
                        cur = Some((String::new(), line.len() - t.len()));
                    }
                }
                Some((buf, ind)) => {
                    if t.starts_with("```") {
                        n += 1;
                        blocks.push((format!("{}#{}", f.display(), n), std::mem::take(buf)));
                        cur = None;
                    } else {
                        let l = if line.len() >= *ind && line[..*ind].trim().is_empty() { &line[*ind..] } else { line };
                        buf.push_str(l);
                        buf.push('\n');
                    }
                }
            }
        }
    }
    blocks
}

fn main() {
    let args = Args::parse("C09");
    util::install_quiet_panic_hook();
    let workers: usize = std::env::var("VERIF_WORKERS").ok().and_then(|s| s.parse().ok()).unwrap_or(8);
    let _ = rayon::ThreadPoolBuilder::new().num_threads(workers).stack_size(64 << 20).build_global();
    let mut out = Outcome::new("C09");
    let mut ev = Evidence::new(
        &args,
        "y = format_source(x) for parseable x; legs: fmt(y)==y, check_formatted(y)==Ok(true), format_diff(y)==Ok(None), exactly one final \
         newline, no tab / trailing whitespace outside string tokens of y; CLI: --check/--diff read-only with exit 1 on unformatted and 0 \
         after `incan fmt`. A case is non-trivial if its AST has a nested block ending a body, a module docstring, a `match` in statement \
         position, or >= 2 declaration kinds; distinct = hash of the source text.",
    );
    ev.assume("cases whose formatted text does not parse belong to C08 and are counted as blocked_by_C08, not judged here");
    ev.assume("file modification is observed through bytes and mtime");
    let known = out.known.clone();
    let c08_known = Known::load("C08");
    let c08_active: Vec<&'static KnownDef> = fmtoracle::active(&c08_known);
    let _ = C08_ACTIVE.set(c08_active.clone());

    if let Some(path) = &args.replay {
        let text = std::fs::read_to_string(path).unwrap_or_default();
        ev.sample(json!({"replay": util::truncate(&text, 600)}));
        let r = judge_text_and_report(&path.display().to_string(), &text, &known, &mut out, &mut ev);
        if r != "judged" {
            println!("note: replay input was not judged ({r})");
        }
        // CLI leg on the same text
        if let Judged::Done { formatted, .. } = judge(&text) {
            if formatted != text {
                cli_leg(&[(text.clone(), formatted)], args.seed, &mut out, &mut ev);
            }
        }
        std::process::exit(out.finish(&ev));
    }

    // ---- 1. canonical inputs of the known findings
    for e in out.known.open.clone() {
        let text = std::fs::read_to_string(&e.replay).unwrap_or_default();
        let still = matches!(judge(&text), Judged::Done { ref fails, .. } if fails.iter().any(|f| f.key == e.key));
        out.known_replayed(&e.key, still);
        if C09_KNOWN.iter().all(|(k, _)| *k != e.key) {
            out.inconclusive(&format!("known finding {} has no entry in C09_KNOWN", e.key));
        }
    }

    // ---- 2. generated programs (constructs of C08's and C09's open findings switched off)
    let cfg = fmtoracle::gsyn_config(&c08_active);
    let n_gen = args.flag("gen").and_then(|s| s.parse().ok()).unwrap_or(args.tier.pick(30_000usize, 600_000usize));
    let chunk = 250usize;
    let n_chunks = n_gen.div_ceil(chunk);
    let scale = args.tier.pick(1usize, 20usize);
    let mut plan: Vec<(u8, usize, usize, u64)> = (0..n_chunks).map(|i| (0u8, i, chunk, args.subseed(2000 + i as u64))).collect();
    if args.flag("no-stress").is_none() {
        for i in 0..5 * scale {
            plan.push((1, i, 200, args.subseed(510_000 + i as u64)));
        }
        for i in 0..3 * scale {
            plan.push((2, i, 200, args.subseed(610_000 + i as u64)));
        }
        for i in 0..2 * scale {
            plan.push((3, i, 30, args.subseed(710_000 + i as u64)));
        }
    }
    let results: Vec<ChunkOut> = plan.par_iter().map(|(class, i, n, s)| run_chunk(*class, *i, *n, *s, &cfg, &known)).collect();
    let (mut deeper_32, mut max_indent, mut nondefault) = (0u64, 0usize, 0u64);
    let mut blocked: BTreeMap<String, u64> = BTreeMap::new();
    let mut cli_files: Vec<(String, String)> = Vec::new();
    let mut cli_priority: Vec<(String, String)> = Vec::new();
    let n_cli = args.tier.pick(12usize, 300usize);
    let (mut generated, mut noise) = (0u64, 0u64);
    for (r, (class, ..)) in results.iter().zip(plan.iter()) {
        ev.class_n(CLASS_NAMES[*class as usize], r.cases);
        deeper_32 += r.deeper_32;
        max_indent = max_indent.max(r.max_indent);
        nondefault += r.nondefault_config;
        generated += r.cases;
        noise += r.noise;
        ev.cases(r.cases - r.noise);
        for h in &r.nontrivial {
            ev.nontrivial(*h);
        }
        for (w, c) in &r.blocked {
            *blocked.entry(w.clone()).or_insert(0) += c;
        }
        for (k, c) in &r.excluded {
            ev.exclude_n(k, *c);
        }
        for (k, c) in &r.classes {
            ev.class_n(k, *c);
        }
        for (s, y) in &r.samples {
            ev.sample(json!({"kind": "gsyn", "source": util::truncate(s, 500), "formatted": util::truncate(y, 500)}));
        }
        for c in &r.cli_priority {
            if cli_priority.len() < 2 {
                cli_priority.push(c.clone());
            }
        }
        for c in &r.cli {
            if cli_files.len() < n_cli {
                cli_files.push(c.clone());
            }
        }
        ev.violations += r.violations.saturating_sub(r.found.len() as u64);
        for f in &r.found {
            report(&mut out, &mut ev, f, Some((&cfg, &known)));
        }
    }
    ev.set(
        "size_and_depth",
        json!({"formatted_indent_deeper_than_32_columns": deeper_32, "deepest_formatted_indent_columns": max_indent, "cases_with_non_default_format_config": nondefault}),
    );
    for _ in 0..noise {
        ev.discard("generator noise: text does not parse");
    }
    let blocked_n: u64 = blocked.values().sum();
    ev.add("blocked_by_C08", blocked_n);
    ev.set("blocked_by_C08_reasons", json!(blocked));
    ev.set("generator_validity", json!({"generated": generated, "noise": noise, "noise_fraction": if generated > 0 { noise as f64 / generated as f64 } else { 0.0 }}));
    if generated > 0 && noise as f64 / generated as f64 > 0.02 {
        out.inconclusive("generator noise exceeds 2%");
    }

    // ---- 3. seeds + doc blocks
    let mut inputs: Vec<(String, String, &'static str)> = Vec::new();
    for p in util::repo_seed_files() {
        if let Ok(t) = std::fs::read_to_string(&p) {
            inputs.push((p.display().to_string(), t, "seed_files"));
        }
    }
    for (n, t) in doc_blocks() {
        inputs.push((n, t, "doc_blocks"));
    }
    for dir in ["known/C08", "known/C09"] {
        let mut files: Vec<_> = std::fs::read_dir(vcore::verif_root().join(dir)).into_iter().flatten().flatten().map(|e| e.path()).collect();
        files.sort();
        for p in files {
            if let Ok(t) = std::fs::read_to_string(&p) {
                inputs.push((p.display().to_string(), t, "regression_inputs"));
            }
        }
    }
    let mut seed_stats: BTreeMap<String, u64> = BTreeMap::new();
    for (name, text, class) in &inputs {
        ev.class(class);
        let r = judge_text_and_report(name, text, &known, &mut out, &mut ev);
        *seed_stats.entry(format!("{class}:{r}")).or_insert(0) += 1;
        if *class == "seed_files" && r == "judged" && seed_stats[&format!("{class}:{r}")] <= 2 {
            ev.sample(json!({"kind": "seed_file", "file": name, "bytes": text.len()}));
        }
        if *class == "seed_files" && r == "judged" && cli_files.len() < n_cli + 4 && text.len() < 6000 {
            if let Judged::Done { formatted, .. } = judge(text) {
                if formatted != *text {
                    cli_files.push((text.clone(), formatted));
                }
            }
        }
    }
    ev.set("seed_stats", json!(seed_stats));

    // ---- 4. CLI leg (files whose formatted text did not parse go first)
    cli_priority.extend(cli_files);
    // keep room for the CLI signatures even when the in-process legs used up the report budget
    out.max_reports += 3;
    cli_leg(&cli_priority, args.seed, &mut out, &mut ev);
    std::process::exit(out.finish(&ev));
}
