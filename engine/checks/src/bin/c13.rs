//! C13 — any legal Incan name is safe to use.
//!
//! Metamorphic: a G-prog program P (symbolic names) is rendered with default names and with a consistent
//! renaming rho drawn per binding position x name class; `incan --check`, `incan build`, exit status and stdout
//! of rho(P) must equal those of P. Programs print values only (never names or Debug text).
//! The name pool is computed as candidates minus Incan's own vocabulary: a candidate must lex as a plain
//! identifier and must not be in any `incan_core::lang` registry (builtins, types, constructors, surface
//! functions/methods, derives, traits), and is never `main`.

use proptest::strategy::ValueTree;
use serde_json::json;
use std::collections::{BTreeMap, BTreeSet};
use vcore::farm::{Farm, FarmOut, Mode, Project};
use vcore::gprog::*;
use vcore::gprog_run::*;
use vcore::{util, Args, Evidence, Outcome};

#[derive(Clone, Copy, Debug, PartialEq, Eq, PartialOrd, Ord, Hash)]
enum Pos {
    Local,
    Param,
    LoopVar,
    MatchBinding,
    Function,
    Method,
    Field,
    TypeName,
    EnumName,
    Variant,
}

const POSITIONS: &[Pos] = &[Pos::Local, Pos::Param, Pos::LoopVar, Pos::MatchBinding, Pos::Function, Pos::Method, Pos::Field, Pos::TypeName, Pos::EnumName, Pos::Variant];

#[derive(Clone, Copy, Debug, PartialEq, Eq, PartialOrd, Ord, Hash)]
enum Class {
    RustKeyword,
    GeneratedName,
    CaseFlipped,
    Underscore,
}
const CLASSES: &[Class] = &[Class::RustKeyword, Class::GeneratedName, Class::CaseFlipped, Class::Underscore];

const GENERATED_NAMES: &[&str] = &[
    "String", "Vec", "Box", "HashMap", "HashSet", "incan_stdlib", "incan_derive", "std", "serde_json", "serde", "__parts", "__args", "__v", "tmp", "s", "format",
    "vec", "usize", "str_index", "list_get", "list_slice", "iter", "fmt", "core", "num", "strings", "collections", "result", "value", "args", "e", "v", "x",
    "Self_", "to_string", "clone", "unwrap", "expect", "new", "default", "from", "into",
];

fn is_plain_ident(name: &str) -> bool {
    match incan::frontend::lexer::lex(name) {
        Ok(toks) => {
            let kinds: Vec<String> = toks.iter().map(|t| format!("{:?}", t.kind)).collect();
            kinds.first().is_some_and(|k| k.starts_with("Ident(")) && kinds.iter().filter(|k| k.starts_with("Ident(")).count() == 1 && !kinds.iter().any(|k| k.starts_with("Keyword(") || k.starts_with("Int(") || k.starts_with("Operator("))
        }
        Err(_) => false,
    }
}

fn in_vocabulary(name: &str) -> bool {
    use incan_core::lang::*;
    if name == "main" || name == "self" || name == "Self" || name == "_" {
        return true;
    }
    let lower = name.to_lowercase();
    for n in [name, lower.as_str()] {
        if keywords::from_str(n).is_some()
            || builtins::from_str(n).is_some()
            || surface::constructors::from_str(n).is_some()
            || surface::functions::from_str(n).is_some()
            || surface::math::fn_from_str(n).is_some()
            || surface::math::const_from_str(n).is_some()
        {
            return true;
        }
    }
    // types, derives, traits, methods: textual scan of the generated language reference (covers every registry
    // including aliases) — any back-ticked word there is treated as vocabulary
    vocabulary_words().contains(name) || vocabulary_words().contains(lower.as_str())
}

fn vocabulary_words() -> &'static BTreeSet<String> {
    static W: std::sync::OnceLock<BTreeSet<String>> = std::sync::OnceLock::new();
    W.get_or_init(|| {
        let p = vcore::repo_root().join("workspaces/docs-site/docs/language/reference/language.md");
        let text = std::fs::read_to_string(p).unwrap_or_default();
        let mut out = BTreeSet::new();
        let mut in_tick = false;
        let mut cur = String::new();
        for c in text.chars() {
            if c == '`' {
                if in_tick && !cur.is_empty() && cur.chars().all(|c| c.is_alphanumeric() || c == '_') {
                    out.insert(cur.clone());
                }
                cur.clear();
                in_tick = !in_tick;
            } else if in_tick {
                cur.push(c);
            }
        }
        out
    })
}

fn legal(name: &str) -> bool {
    is_plain_ident(name) && !in_vocabulary(name)
}

fn pool(class: Class) -> Vec<String> {
    let raw: Vec<String> = match class {
        Class::RustKeyword => incan_core::lang::rust_keywords::RUST_KEYWORDS.iter().map(|s| s.to_string()).collect(),
        Class::GeneratedName => GENERATED_NAMES.iter().map(|s| s.to_string()).collect(),
        Class::Underscore => vec!["_a", "_b1", "_x", "q", "T", "_tmp", "k", "_0"].into_iter().map(|s| s.to_string()).collect(),
        Class::CaseFlipped => vec![],
    };
    raw.into_iter().filter(|n| legal(n)).collect()
}

/// classify every NameKey of a program by binding position
fn positions(p: &Program) -> BTreeMap<NameKey, Pos> {
    let mut m = BTreeMap::new();
    fn stmts(ss: &[Stmt], m: &mut BTreeMap<NameKey, Pos>) {
        for s in ss {
            match s {
                Stmt::Let { name, e, .. } => {
                    m.entry(NameKey::Var(*name)).or_insert(Pos::Local);
                    expr(e, m);
                }
                Stmt::If { arms, els } => {
                    for (c, b) in arms {
                        expr(c, m);
                        stmts(b, m);
                    }
                    if let Some(b) = els {
                        stmts(b, m);
                    }
                }
                Stmt::While { counter, body, .. } => {
                    m.entry(NameKey::Var(*counter)).or_insert(Pos::Local);
                    stmts(body, m);
                }
                Stmt::ForRange { var, body, .. } | Stmt::ForIn { var, body, .. } => {
                    m.insert(NameKey::Var(*var), Pos::LoopVar);
                    stmts(body, m);
                }
                Stmt::Match { arms, .. } => {
                    for (pat, b) in arms {
                        match pat {
                            Pat::Variant(_, _, bs) => {
                                for b in bs {
                                    m.insert(NameKey::Var(*b), Pos::MatchBinding);
                                }
                            }
                            Pat::SomeP(b) | Pat::OkP(b) | Pat::ErrP(b) => {
                                m.insert(NameKey::Var(*b), Pos::MatchBinding);
                            }
                            _ => {}
                        }
                        stmts(b, m);
                    }
                }
                Stmt::Print(e) | Stmt::ExprStmt(e) | Stmt::Assign { e, .. } | Stmt::Aug { e, .. } | Stmt::Append { e, .. } => expr(e, m),
                _ => {}
            }
        }
    }
    fn expr(e: &Expr, m: &mut BTreeMap<NameKey, Pos>) {
        vcore::gprog_gen::walk_expr(e, &mut |x| {
            if let Expr::Comp(_, v, _, _) = x {
                m.insert(NameKey::Var(*v), Pos::LoopVar);
            }
        });
    }
    for (i, f) in p.fns.iter().enumerate() {
        m.insert(NameKey::Fn(i), Pos::Function);
        for (n, _, _) in &f.params {
            m.insert(NameKey::Var(*n), Pos::Param);
        }
        stmts(&f.body, &mut m);
    }
    for (i, md) in p.models.iter().enumerate() {
        m.insert(NameKey::Model(i), Pos::TypeName);
        for f in 0..md.fields.len() {
            m.insert(NameKey::Field(i, f), Pos::Field);
        }
        for (mi, me) in md.methods.iter().enumerate() {
            m.insert(NameKey::Method(i, mi), Pos::Method);
            for (n, _) in &me.params {
                m.insert(NameKey::Var(*n), Pos::Param);
            }
            stmts(&me.body, &mut m);
        }
    }
    for (i, e) in p.enums.iter().enumerate() {
        m.insert(NameKey::Enum(i), Pos::EnumName);
        for v in 0..e.variants.len() {
            m.insert(NameKey::Variant(i, v), Pos::Variant);
        }
    }
    stmts(&p.main, &mut m);
    m
}


// ------------------------------------------------------------------------------------------------
// text templates: constructs G-prog does not generate (closures called from nested blocks, comprehension
// variables, named arguments, f-string interpolation of renamed locals, enum payload bindings, field defaults)
// ------------------------------------------------------------------------------------------------

struct Template {
    source: &'static str,
    idents: &'static [(&'static str, Pos)],
}

const TEMPLATES: &[Template] = &[
    Template {
        source: "def applyf(nparam: int) -> int:\n    thunkv = () => 40\n    addv = (xarg) => xarg + 1\n    mut totalv = 0\n    if nparam > 0:\n        totalv = thunkv() + nparam\n    for ivar in range(nparam):\n        totalv = totalv + thunkv() + addv(ivar)\n    mut cntv = 0\n    while cntv < 2:\n        cntv += 1\n        totalv += addv(cntv)\n    return totalv\n\ndef main() -> None:\n    println(applyf(2))\n",
        idents: &[("applyf", Pos::Function), ("nparam", Pos::Param), ("thunkv", Pos::Local), ("addv", Pos::Local), ("xarg", Pos::Param), ("totalv", Pos::Local), ("ivar", Pos::LoopVar), ("cntv", Pos::Local)],
    },
    Template {
        source: "enum Kinde:\n    Circv(int)\n    Rectv(int, int)\n\nmodel Boxm:\n    widthf: int\n    heightf: int = 2\n\n    def scalem(self, factorp: int) -> int:\n        return self.widthf * factorp + self.heightf\n\ndef sizef(shapep: Kinde) -> int:\n    match shapep:\n        case Kinde.Circv(radb):\n            return radb * 3\n        case Kinde.Rectv(wb, hb):\n            return wb * hb\n\ndef main() -> None:\n    boxv = Boxm(widthf=3)\n    println(boxv.scalem(4))\n    println(sizef(Kinde.Rectv(2, 5)))\n    println(sizef(Kinde.Circv(2)))\n    sqv = [elv * elv for elv in [1, 2, 3]]\n    println(sqv[2])\n    labelv = \"n\"\n    println(f\"{labelv}={sqv[0]}\")\n",
        idents: &[("Kinde", Pos::EnumName), ("Circv", Pos::Variant), ("Rectv", Pos::Variant), ("Boxm", Pos::TypeName), ("widthf", Pos::Field), ("heightf", Pos::Field), ("scalem", Pos::Method), ("factorp", Pos::Param), ("sizef", Pos::Function), ("shapep", Pos::Param), ("radb", Pos::MatchBinding), ("wb", Pos::MatchBinding), ("hb", Pos::MatchBinding), ("boxv", Pos::Local), ("sqv", Pos::Local), ("elv", Pos::LoopVar), ("labelv", Pos::Local)],
    },
];

fn replace_ident(src: &str, old: &str, new: &str) -> String {
    // whole-word replacement (identifiers of the templates are not substrings of each other's words)
    let mut out = String::new();
    let b = src.as_bytes();
    let mut i = 0;
    let is_w = |c: u8| c.is_ascii_alphanumeric() || c == b'_';
    while i < b.len() {
        if src[i..].starts_with(old) && (i == 0 || !is_w(b[i - 1])) && (i + old.len() >= b.len() || !is_w(b[i + old.len()])) {
            out.push_str(new);
            i += old.len();
        } else {
            let ch = src[i..].chars().next().unwrap();
            out.push(ch);
            i += ch.len_utf8();
        }
    }
    out
}

/// rename every identifier of `t` at position `pos` into `class` (rotating through the pool from `pick`)
fn template_renaming(t: &Template, pos: Pos, class: Class, pick: usize, banned: &BTreeSet<(Pos, String)>) -> (String, Vec<(String, String)>) {
    let pl = pool(class);
    let mut used: BTreeSet<String> = t.idents.iter().map(|(n, _)| n.to_string()).collect();
    let mut src = t.source.to_string();
    let mut applied = Vec::new();
    let mut j = pick;
    for (old, p) in t.idents {
        if *p != pos {
            continue;
        }
        let new = if class == Class::CaseFlipped {
            let n = flip_case(old);
            if legal(&n) && !used.contains(&n) { Some(n) } else { None }
        } else {
            let mut f = None;
            for _ in 0..pl.len() {
                let cand = &pl[j % pl.len().max(1)];
                j += 1;
                if !used.contains(cand) && !banned.contains(&(pos, cand.clone())) {
                    f = Some(cand.clone());
                    break;
                }
            }
            f
        };
        if let Some(n) = new {
            if banned.contains(&(pos, n.clone())) {
                continue;
            }
            used.insert(n.clone());
            src = replace_ident(&src, old, &n);
            applied.push((old.to_string(), n));
        }
    }
    (src, applied)
}

fn flip_case(s: &str) -> String {
    let mut cs: Vec<char> = s.chars().collect();
    if let Some(c) = cs.first_mut() {
        if c.is_uppercase() {
            *c = c.to_ascii_lowercase();
        } else {
            *c = c.to_ascii_uppercase();
        }
    }
    cs.into_iter().collect()
}

/// Build a renaming of every key at position `pos` into `class`; `pick` rotates through the pool.
fn renaming(p: &Program, pos: Pos, class: Class, pick: usize, banned: &BTreeSet<(Pos, String)>) -> (Names, Vec<(String, String)>) {
    let base = Names::default();
    let mut names = Names::default();
    let mut used: BTreeSet<String> = positions(p).keys().map(|k| base.get(k)).collect();
    let pl = pool(class);
    let mut applied = Vec::new();
    let mut j = pick;
    for (k, kp) in positions(p) {
        if kp != pos {
            continue;
        }
        let old = base.get(&k);
        let new = if class == Class::CaseFlipped {
            let n = flip_case(&old);
            if legal(&n) { Some(n) } else { None }
        } else {
            let mut found = None;
            for _ in 0..pl.len() {
                let cand = &pl[j % pl.len()];
                j += 1;
                if !used.contains(cand) && !banned.contains(&(pos, cand.clone())) {
                    found = Some(cand.clone());
                    break;
                }
            }
            found
        };
        if let Some(n) = new {
            if used.insert(n.clone()) && !banned.contains(&(pos, n.clone())) {
                // fields of different models may share a name, everything else is kept globally distinct
                names.map.insert(k.clone(), n.clone());
                applied.push((old, n));
            }
        }
    }
    (names, applied)
}

#[derive(Debug, Clone, PartialEq)]
struct Obs {
    check_ok: bool,
    build_ok: bool,
    status: Option<i32>,
    stdout: String,
}

fn observe(o: &FarmOut) -> Result<Obs, String> {
    if let Some(e) = &o.infra_error {
        return Err(e.clone());
    }
    let check_ok = o.check.as_ref().is_some_and(|c| c.ok());
    let build_ok = o.build.as_ref().is_some_and(|b| b.ok());
    let (status, stdout) = match &o.run {
        Some(r) => {
            if r.timed_out {
                return Err("watchdog on the generated program".into());
            }
            (r.status, r.stdout.clone())
        }
        None => (None, String::new()),
    };
    Ok(Obs { check_ok, build_ok, status, stdout })
}

fn describe(o: &FarmOut) -> String {
    let mut s = String::new();
    if let Some(c) = &o.check {
        if !c.ok() {
            s.push_str(&format!("check: {}\n", util::truncate(&strip_ansi(&c.stderr), 600)));
        }
    }
    if let Some(b) = &o.build {
        if !b.ok() {
            let (sig, d) = build_signature(b);
            s.push_str(&format!("build: {sig}\n{}\n", util::truncate(&d, 900)));
        }
    }
    if let Some(r) = &o.run {
        s.push_str(&format!("run: status {:?}\n{}", r.status, util::truncate(&r.stdout, 300)));
    }
    s
}

fn main() {
    let args = Args::parse("C13");
    let mut out = Outcome::new("C13");
    out.max_reports = 40;
    let mut ev = Evidence::new(
        &args,
        "G-prog base programs (known output) x consistent renamings per binding position {local, param, loop var, match binding, function, \
         method, field, type, enum, variant} x name class {Rust keyword not reserved by Incan, name used by generated code, case-flipped, \
         underscore/one-letter}; oracle: check/build/exit status/stdout identical to the base program. Non-trivial = the renaming maps at least \
         one binding to a Rust keyword or a generated-code name or flips the case of a type/value name; distinct = (source hash of the renamed program).",
    );
    ev.assume("a candidate name is legal iff the real lexer yields one identifier token and it is in no incan_core::lang registry / the generated language reference; `main` is never used");
    let (sw, _off) = switches_from_known(&["C01", "C02", "C13"]);
    let mut cfg = Cfg::default();
    cfg.sw = sw;
    cfg.max_stmts = 10;
    let farm = Farm::new("c13");

    // banned (position, name) pairs: open known findings `rename:<Pos>:<name>`
    // open known findings: `rename:<Pos>:<name>` bans one name at one position, `rename:<Pos>:class:<Class>` a whole cell
    let mut banned: BTreeSet<(Pos, String)> = BTreeSet::new();
    let mut banned_cells: BTreeSet<(Pos, Class)> = BTreeSet::new();
    for e in &out.known.open {
        if let Some(rest) = e.key.strip_prefix("rename:") {
            let parts: Vec<&str> = rest.split(':').collect();
            let Some(pos) = POSITIONS.iter().find(|x| format!("{x:?}") == parts[0]) else { continue };
            if parts.len() == 3 && parts[1] == "class" {
                if let Some(c) = CLASSES.iter().find(|x| format!("{x:?}") == parts[2]) {
                    banned_cells.insert((*pos, *c));
                }
            } else if parts.len() >= 2 {
                banned.insert((*pos, parts[1].to_string()));
            }
        }
    }

    // replay: JSON {base, renamed}
    let judge_pair = |base_src: &str, ren_src: &str, farm: &Farm| -> Result<Option<String>, String> {
        let outs = farm.run_many(&[Project::single("prog", base_src), Project::single("prog", ren_src)], Mode::CheckBuildRun);
        let a = observe(&outs[0])?;
        let b = observe(&outs[1])?;
        if !(a.check_ok && a.build_ok) {
            return Err("the base program of this pair does not check/build on this tree".to_string());
        }
        if a != b {
            return Ok(Some(format!("base: check={} build={} status={:?}\nrenamed: check={} build={} status={:?}\n{}", a.check_ok, a.build_ok, a.status, b.check_ok, b.build_ok, b.status, describe(&outs[1]))));
        }
        Ok(None)
    };

    if let Some(path) = &args.replay {
        let text = std::fs::read_to_string(path).unwrap_or_default();
        let v: serde_json::Value = serde_json::from_str(&text).unwrap_or_default();
        let (b, r) = (v["base"].as_str().unwrap_or(""), v["renamed"].as_str().unwrap_or(""));
        ev.case(Some(util::hash_str(r)));
        ev.nontrivial(1);
        ev.sample(json!({"renamed": r}));
        match judge_pair(b, r, &farm) {
            Ok(Some(d)) => {
                out.violation(&mut ev, v["signature"].as_str().unwrap_or("rename:replay"), "json", &text, &d);
            }
            Ok(None) => println!("replay: renamed program behaves like the base program"),
            Err(e) => out.inconclusive(&e),
        }
        std::process::exit(out.finish(&ev));
    }

    for e in out.known.open.clone() {
        let text = std::fs::read_to_string(&e.replay).unwrap_or_default();
        let v: serde_json::Value = serde_json::from_str(&text).unwrap_or_default();
        if let (Some(b), Some(r)) = (v["base"].as_str(), v["renamed"].as_str()) {
            match judge_pair(b, r, &farm) {
                Ok(res) => out.known_replayed(&e.key, res.is_some()),
                Err(err) => out.inconclusive(&err),
            }
        }
    }

    // ---- regression corpus: pairs of fixed findings must keep behaving alike
    if let Ok(rd) = std::fs::read_dir(vcore::verif_root().join("known/C13/fixed")) {
        let mut files: Vec<_> = rd.flatten().map(|e| e.path()).filter(|p| p.extension().is_some_and(|e| e == "json")).collect();
        files.sort();
        for f in files {
            let text = std::fs::read_to_string(&f).unwrap_or_default();
            let v: serde_json::Value = serde_json::from_str(&text).unwrap_or_default();
            if let (Some(b), Some(r)) = (v["base"].as_str(), v["renamed"].as_str()) {
                ev.case(Some(util::hash_str(r)));
                match judge_pair(b, r, &farm) {
                    Ok(Some(d)) => {
                        let name = f.file_stem().map(|s| s.to_string_lossy().to_string()).unwrap_or_default();
                        out.violation(&mut ev, &format!("regression:{name}"), "json", &text, &format!("a fixed finding is back\n{d}"));
                    }
                    Ok(None) => {}
                    Err(e) => out.inconclusive(&format!("regression input {}: {e}", f.display())),
                }
            }
        }
    }

    // ---- template leg
    {
        let tprojects: Vec<Project> = TEMPLATES.iter().map(|t| Project::single("prog", t.source)).collect();
        let touts = farm.run_many(&tprojects, Mode::CheckBuildRun);
        struct TJob {
            t: usize,
            pos: Pos,
            class: Class,
            applied: Vec<(String, String)>,
            source: String,
        }
        let mut tjobs: Vec<TJob> = Vec::new();
        let mut tbase: Vec<Option<Obs>> = Vec::new();
        for o in &touts {
            tbase.push(observe(o).ok().filter(|b| b.check_ok && b.build_ok));
        }
        for (ti, t) in TEMPLATES.iter().enumerate() {
            if tbase[ti].is_none() {
                out.inconclusive(&format!("template {ti} does not build on this tree"));
                continue;
            }
            for pos in POSITIONS {
                if !t.idents.iter().any(|(_, p)| p == pos) {
                    continue;
                }
                for class in CLASSES {
                    if banned_cells.contains(&(*pos, *class)) {
                        continue;
                    }
                    let count = t.idents.iter().filter(|(_, p)| p == pos).count().max(1);
                    let pool_len = pool(*class).len();
                    // the G-prog leg sweeps the whole keyword pool at every position; templates sample it (all of it in thorough)
                    let full = (pool_len + count - 1) / count;
                    let rounds = if *class == Class::RustKeyword { if args.tier == vcore::Tier::Thorough { full } else { full.min(2) } } else { 1 };
                    for r in 0..rounds.max(1) {
                        let (source, applied) = template_renaming(t, *pos, *class, r * count + ti * 3, &banned);
                        if !applied.is_empty() {
                            tjobs.push(TJob { t: ti, pos: *pos, class: *class, applied, source });
                        }
                    }
                }
            }
        }
        let jouts = farm.run_many(&tjobs.iter().map(|j| Project::single("prog", &j.source)).collect::<Vec<_>>(), Mode::CheckBuildRun);
        for (j, o) in tjobs.iter().zip(jouts.iter()) {
            ev.case(Some(util::hash_str(&j.source)));
            ev.class("template_renaming");
            let base = tbase[j.t].as_ref().unwrap();
            let ob = match observe(o) {
                Ok(ob) => ob,
                Err(e) => {
                    out.inconclusive(&format!("renamed template: {e}"));
                    continue;
                }
            };
            if &ob == base {
                continue;
            }
            // single-identifier minimisation
            let mut culprit: Option<(String, String, String)> = None;
            for (old, new) in &j.applied {
                let src = replace_ident(TEMPLATES[j.t].source, old, new);
                let o1 = farm.run_one(&Project::single("prog", &src), Mode::CheckBuildRun);
                if let Ok(ob1) = observe(&o1) {
                    if &ob1 != base {
                        culprit = Some((old.clone(), new.clone(), src));
                        break;
                    }
                }
            }
            let by_class = matches!(j.class, Class::RustKeyword | Class::CaseFlipped);
            let (sig, ren_src, what) = match &culprit {
                Some((old, new, src)) if !by_class => (format!("rename:{:?}:{}", j.pos, new), src.clone(), format!("{old} -> {new}")),
                Some((old, new, src)) => (format!("rename:{:?}:class:{:?}", j.pos, j.class), src.clone(), format!("{old} -> {new}")),
                None => (format!("rename:{:?}:class:{:?}", j.pos, j.class), j.source.clone(), format!("{:?}", j.applied)),
            };
            if out.is_known(&sig) {
                ev.exclude(&sig);
                continue;
            }
            let body = serde_json::to_string_pretty(&json!({"signature": sig, "base": TEMPLATES[j.t].source, "renamed": ren_src, "renaming": what})).unwrap();
            let detail = format!("template {}, position {:?}, class {:?}, renaming {what}\nbase: status={:?}\nrenamed: check={} build={} status={:?}\n{}", j.t, j.pos, j.class, base.status, ob.check_ok, ob.build_ok, ob.status, describe(o));
            out.violation(&mut ev, &sig, "json", &body, &detail);
        }
    }

    // ---- base programs
    let n_base = args.tier.pick(10usize, 120usize);
    let strat = proptest::collection::vec(proptest::num::u32::ANY, 80..500);
    let mut runner = vcore::gen::runner(args.subseed(13));
    let trees = vcore::gen::batch(&strat, &mut runner, n_base * 3);
    let default_names = Names::default();
    let mut bases: Vec<Case> = Vec::new();
    let cands: Vec<Case> = trees.iter().map(|t| make_case(t.current(), &cfg, &default_names)).collect();
    // keep programs that exercise several positions
    let mut scored: Vec<(usize, Case)> = cands
        .into_iter()
        .map(|c| {
            let ps: BTreeSet<Pos> = positions(&c.program).values().cloned().collect();
            (ps.len(), c)
        })
        .collect();
    scored.sort_by(|a, b| b.0.cmp(&a.0));
    for (_, c) in scored.into_iter().take(n_base * 2) {
        bases.push(c);
    }
    let base_out = farm.run_many(&bases.iter().map(|c| Project::single("prog", &c.source)).collect::<Vec<_>>(), Mode::CheckBuildRun);
    let mut usable: Vec<(Case, Obs)> = Vec::new();
    for (c, o) in bases.into_iter().zip(base_out.iter()) {
        match observe(o) {
            Ok(ob) if ob.check_ok && ob.build_ok => usable.push((c, ob)),
            Ok(_) => ev.discard("base_program_not_accepted_or_not_built"),
            Err(e) => {
                ev.discard("base_infra");
                let _ = e;
            }
        }
    }
    usable.truncate(n_base);
    ev.set("base_programs", json!(usable.len()));
    if usable.is_empty() {
        out.inconclusive("no usable base program");
        std::process::exit(out.finish(&ev));
    }

    // ---- renamings: matrix position x class, rotating base programs and pool offsets
    struct Job {
        base: usize,
        pos: Pos,
        class: Class,
        names: Names,
        applied: Vec<(String, String)>,
        source: String,
    }
    let reps = args.tier.pick(2usize, 12usize);
    let mut jobs: Vec<Job> = Vec::new();
    let mut k = 0usize;
    for rep in 0..reps {
        for pos in POSITIONS {
            for class in CLASSES {
                if banned_cells.contains(&(*pos, *class)) {
                    ev.exclude(&format!("rename:{pos:?}:class:{class:?}"));
                    continue;
                }
                // find a base program that has this position
                for off in 0..usable.len() {
                    let bi = (k + off) % usable.len();
                    let (names, applied) = renaming(&usable[bi].0.program, *pos, *class, rep * 7 + k, &banned);
                    if !applied.is_empty() {
                        // Rust keywords: walk the *whole* pool at this position (first repetition only), so that every
                        // keyword is tried at every position in every run, not a rotating sample
                        if *class == Class::RustKeyword && rep == 0 {
                            let pool_len = pool(Class::RustKeyword).len();
                            let step = applied.len().max(1);
                            let mut start = 0usize;
                            while start < pool_len {
                                let (names, applied) = renaming(&usable[bi].0.program, *pos, *class, start, &banned);
                                if !applied.is_empty() {
                                    let source = render(&usable[bi].0.program, &names);
                                    jobs.push(Job { base: bi, pos: *pos, class: *class, names, applied, source });
                                }
                                start += step;
                            }
                            break;
                        }
                        let source = render(&usable[bi].0.program, &names);
                        jobs.push(Job { base: bi, pos: *pos, class: *class, names, applied, source });
                        break;
                    }
                }
                k += 1;
            }
        }
    }
    let outs = farm.run_many(&jobs.iter().map(|j| Project::single("prog", &j.source)).collect::<Vec<_>>(), Mode::CheckBuildRun);
    let mut cell_hist: BTreeMap<String, u64> = BTreeMap::new();
    for (j, o) in jobs.iter().zip(outs.iter()) {
        *cell_hist.entry(format!("{:?}x{:?}", j.pos, j.class)).or_insert(0) += 1;
        ev.case(Some(util::hash_str(&j.source)));
        if ev.want_sample() && (j.applied.len() + j.base) % 3 == 0 {
            ev.sample(json!({"position": format!("{:?}", j.pos), "class": format!("{:?}", j.class), "renaming": j.applied, "renamed_source": util::truncate(&j.source, 700)}));
        }
        let ob = match observe(o) {
            Ok(ob) => ob,
            Err(e) => {
                out.inconclusive(&format!("renamed program: {e}"));
                continue;
            }
        };
        if ob == usable[j.base].1 {
            continue;
        }
        // minimise: find a single (old -> new) pair that still breaks it
        let mut culprit: Option<(String, String, String)> = None;
        let keys: Vec<(NameKey, String)> = j.names.map.iter().map(|(k, v)| (k.clone(), v.clone())).collect();
        for (key, newn) in keys.iter().take(8) {
            let mut single = Names::default();
            single.map.insert(key.clone(), newn.clone());
            let src = render(&usable[j.base].0.program, &single);
            let o1 = farm.run_one(&Project::single("prog", &src), Mode::CheckBuildRun);
            if let Ok(ob1) = observe(&o1) {
                if ob1 != usable[j.base].1 {
                    culprit = Some((default_names.get(key), newn.clone(), src));
                    break;
                }
            }
        }
        // keywords and case flips fail by class (one root cause per position); other names are keyed individually
        let by_class = matches!(j.class, Class::RustKeyword | Class::CaseFlipped);
        let (sig, ren_src, what) = match &culprit {
            Some((old, new, src)) if !by_class => (format!("rename:{:?}:{}", j.pos, new), src.clone(), format!("{old} -> {new}")),
            Some((old, new, src)) => (format!("rename:{:?}:class:{:?}", j.pos, j.class), src.clone(), format!("{old} -> {new}")),
            None => (format!("rename:{:?}:class:{:?}", j.pos, j.class), j.source.clone(), format!("{:?}", j.applied)),
        };
        if out.is_known(&sig) {
            ev.exclude(&sig);
            continue;
        }
        let body = serde_json::to_string_pretty(&json!({"signature": sig, "base": usable[j.base].0.source, "renamed": ren_src, "renaming": what})).unwrap();
        let detail = format!(
            "position {:?}, class {:?}, renaming {what}\nbase: check={} build={} status={:?}\nrenamed: check={} build={} status={:?}\n{}",
            j.pos, j.class, usable[j.base].1.check_ok, usable[j.base].1.build_ok, usable[j.base].1.status, ob.check_ok, ob.build_ok, ob.status, describe(o)
        );
        out.violation(&mut ev, &sig, "json", &body, &detail);
    }
    ev.set("matrix_cells", json!(cell_hist));
    ev.set("pool_sizes", json!(CLASSES.iter().map(|c| (format!("{c:?}"), pool(*c).len())).collect::<BTreeMap<_, _>>()));
    ev.set("pool_rust_keywords", json!(pool(Class::RustKeyword)));
    for (p, n) in &banned {
        ev.exclude(&format!("rename:{p:?}:{n}"));
    }
    std::process::exit(out.finish(&ev));
}
