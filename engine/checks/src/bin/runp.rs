//! Developer tool: push every .incn file of a directory through the farm (check, build, run) and print a
//! compact report. `runp <dir> [--show-rust]`
use vcore::farm::{Farm, Mode, Project};

fn main() {
    let dir = std::env::args().nth(1).expect("dir");
    let verbose = std::env::args().any(|a| a == "-v");
    let mut files: Vec<_> = std::fs::read_dir(&dir)
        .unwrap()
        .flatten()
        .map(|e| e.path())
        .filter(|p| p.extension().is_some_and(|e| e == "incn"))
        .collect();
    files.sort();
    let projects: Vec<Project> = files
        .iter()
        .map(|p| Project::single(p.file_stem().unwrap().to_str().unwrap(), &std::fs::read_to_string(p).unwrap()))
        .collect();
    let farm = Farm::new("runp");
    let outs = farm.run_many(&projects, Mode::CheckBuildRun);
    for (p, o) in projects.iter().zip(outs.iter()) {
        println!("=== {}", p.name);
        if let Some(c) = &o.check {
            if !c.ok() {
                println!("CHECK FAILED:\n{}", vcore::util::truncate(&strip(&c.stderr), 1500));
                continue;
            }
        }
        if let Some(b) = &o.build {
            if !b.ok() {
                let errs: Vec<&str> = b.stderr.lines().filter(|l| l.starts_with("error") || l.contains("-->") || l.trim_start().starts_with(char::is_numeric)).take(if verbose { 60 } else { 14 }).collect();
                println!("BUILD FAILED:\n{}", errs.join("\n"));
                if errs.is_empty() {
                    println!("{}", vcore::util::truncate(&b.stderr, 1500));
                }
                continue;
            }
        }
        if let Some(r) = &o.run {
            println!("exit={:?} timed_out={}\n{}", r.status, r.timed_out, r.stdout);
            if !r.stderr.is_empty() {
                println!("stderr: {}", vcore::util::truncate(&r.stderr, 400));
            }
        }
        if let Some(e) = &o.infra_error {
            println!("INFRA: {e}");
        }
    }
}

fn strip(s: &str) -> String {
    let mut out = String::new();
    let mut it = s.chars();
    while let Some(c) = it.next() {
        if c == '\x1b' {
            for d in it.by_ref() {
                if d == 'm' {
                    break;
                }
            }
        } else {
            out.push(c);
        }
    }
    out
}
