//! C11 — the front end is total and its diagnostics are well-formed.
//!
//! Oracle (`vcore::front::judge`, one process, every stage under `catch_unwind`): `lexer::lex`, `parser::parse`,
//! `TypeChecker::check_program`, `format_source`, `IrCodegen::try_generate` each return; `Err` lists are non-empty;
//! every `CompileError` has `start <= end <= len` on char boundaries; `format_error`, `render_miette` and
//! `lsp::compile_error_to_diagnostic` do not panic and the editor range lies inside the document with start <= end.
//! Non-termination: cases run on worker threads; a case that has not returned after 20 s is a hang *candidate*, is
//! re-run alone with a 60 s bound and only then reported (`hang:<stage>`).
//!
//! Inputs: every char-boundary prefix of a fixed set of seed files; proptest-driven mutations of all seed files (token
//! deletion / duplication / swap, bracket unbalancing, indentation damage, unterminated string / f-string / byte string /
//! triple quote / escape, scalar splices (BOM, NBSP, bidi marks, astral, NUL, CR, ...), lexically valid non-ASCII +
//! semantic errors, malformed numbers, token soup, nesting up to the bound, line damage, cuts); the committed
//! `fz_frontend` corpus (in-process replay); a CLI sample (`incan --lex/--parse/--check/--emit-rust`, `incan fmt --check`
//! must exit 0/1, never 101 or a signal). Thorough tier: the `fz_frontend` libFuzzer campaign.
//! Inputs nested deeper than 64 are skipped and counted (the property bounds nesting).

use proptest::prelude::*;
use proptest::strategy::ValueTree;
use serde_json::json;
use std::collections::{BTreeMap, BTreeSet, HashSet};
use std::sync::atomic::{AtomicBool, AtomicU64, AtomicU8, AtomicUsize, Ordering};
use std::sync::{Arc, Mutex};
use std::time::{Duration, Instant};
use vcore::front::{self, Report, MAX_NESTING, STAGES};
use vcore::{util, Args, Evidence, Outcome, Tier};

const PROP: &str = "C11";
const MAX_INPUT_BYTES: usize = 12_000;
const HANG_FIRST: Duration = Duration::from_secs(20);
const HANG_CONFIRM: Duration = Duration::from_secs(60);
/// after this many hang candidates in one batch no more work is handed out (each one is a spinning thread)
const MAX_ABANDONED: usize = 3;

// ------------------------------------------------------------------------------------------------------------
// worker pool with a hang watchdog
// ------------------------------------------------------------------------------------------------------------

struct Slot {
    case: AtomicUsize,
    stage: AtomicU8,
    started_ms: AtomicU64,
    abandoned: AtomicBool,
    alive: AtomicBool,
}

struct Pool {
    cases: Arc<Vec<String>>,
    next: Arc<AtomicUsize>,
    results: Arc<Mutex<Vec<Option<Report>>>>,
    t0: Instant,
}

fn spawn_worker(p: &Pool) -> Arc<Slot> {
    let slot = Arc::new(Slot {
        case: AtomicUsize::new(usize::MAX),
        stage: AtomicU8::new(0),
        started_ms: AtomicU64::new(0),
        abandoned: AtomicBool::new(false),
        alive: AtomicBool::new(true),
    });
    let (cases, next, results, t0, s) = (p.cases.clone(), p.next.clone(), p.results.clone(), p.t0, slot.clone());
    std::thread::Builder::new()
        .stack_size(512 << 20)
        .spawn(move || {
            loop {
                let i = next.fetch_add(1, Ordering::SeqCst);
                if i >= cases.len() {
                    break;
                }
                s.started_ms.store(t0.elapsed().as_millis() as u64, Ordering::SeqCst);
                s.case.store(i, Ordering::SeqCst);
                let rep = front::judge(&cases[i], &s.stage);
                s.case.store(usize::MAX, Ordering::SeqCst);
                if let Ok(mut r) = results.lock() {
                    r[i] = Some(rep);
                }
            }
            s.alive.store(false, Ordering::SeqCst);
        })
        .expect("spawn worker");
    slot
}

/// Returns per-case reports (None for cases that did not return) and the hang candidates (case index, stage index).
fn run_pool(cases: Vec<String>, workers: usize) -> (Vec<Option<Report>>, Vec<(usize, u8)>, Arc<Vec<String>>) {
    let n = cases.len();
    let pool = Pool { cases: Arc::new(cases), next: Arc::new(AtomicUsize::new(0)), results: Arc::new(Mutex::new((0..n).map(|_| None).collect())), t0: Instant::now() };
    let mut slots: Vec<Arc<Slot>> = (0..workers.max(1)).map(|_| spawn_worker(&pool)).collect();
    let mut hangs = Vec::new();
    loop {
        std::thread::sleep(Duration::from_millis(20));
        let now = pool.t0.elapsed().as_millis() as u64;
        let mut busy = false;
        let mut respawn = 0;
        for s in &slots {
            if s.abandoned.load(Ordering::SeqCst) || !s.alive.load(Ordering::SeqCst) {
                continue;
            }
            busy = true;
            let c = s.case.load(Ordering::SeqCst);
            if c != usize::MAX && now.saturating_sub(s.started_ms.load(Ordering::SeqCst)) > HANG_FIRST.as_millis() as u64 && s.case.load(Ordering::SeqCst) == c {
                s.abandoned.store(true, Ordering::SeqCst);
                hangs.push((c, s.stage.load(Ordering::SeqCst)));
                respawn += 1;
            }
        }
        for _ in 0..respawn {
            if hangs.len() >= MAX_ABANDONED {
                // every abandoned thread keeps spinning: stop handing out work, the candidates found so far decide
                pool.next.store(usize::MAX / 2, Ordering::SeqCst);
            } else {
                slots.push(spawn_worker(&pool));
                busy = true;
            }
        }
        if !busy {
            break;
        }
    }
    let results = std::mem::take(&mut *pool.results.lock().unwrap());
    (results, hangs, pool.cases)
}

/// Re-run one input alone. Ok(report) if it returns within `limit`, Err(stage) otherwise.
fn run_alone(text: &str, limit: Duration) -> Result<Report, u8> {
    let stage = Arc::new(AtomicU8::new(0));
    let (tx, rx) = std::sync::mpsc::channel();
    let (t, st) = (text.to_string(), stage.clone());
    std::thread::Builder::new()
        .stack_size(512 << 20)
        .spawn(move || {
            let r = front::judge(&t, &st);
            let _ = tx.send(r);
        })
        .expect("spawn");
    rx.recv_timeout(limit).map_err(|_| stage.load(Ordering::SeqCst))
}

fn workers() -> usize {
    std::env::var("VERIF_WORKERS").ok().and_then(|s| s.parse().ok()).unwrap_or(8).max(1)
}

// ------------------------------------------------------------------------------------------------------------

struct Run<'a> {
    out: &'a mut Outcome,
    ev: &'a mut Evidence,
    allow: BTreeSet<String>,
    tolerated: BTreeMap<String, u64>,
    seen_inputs: HashSet<u64>,
    stage_hist: BTreeMap<&'static str, u64>,
    diag_hist: BTreeMap<&'static str, u64>,
    sample_quota: BTreeMap<&'static str, u32>,
    /// inputs kept for the CLI leg: (class, text, in-process panic locations)
    cli_sample: Vec<(String, String, Vec<String>)>,
    cli_per_class: usize,
    cli_max: usize,
    hang_candidates: usize,
}

impl<'a> Run<'a> {
    /// Evaluate a batch: skip out-of-domain inputs, run the rest on the pool, account, report.
    fn batch(&mut self, inputs: Vec<(&'static str, String)>) {
        if self.hang_candidates >= 2 * MAX_ABANDONED {
            // the process already carries that many spinning threads; the reported hang decides the run
            self.ev.add("cases_not_run_after_hang_candidates", inputs.len() as u64);
            return;
        }
        let mut classes = Vec::new();
        let mut texts = Vec::new();
        for (class, t) in inputs {
            if t.len() > MAX_INPUT_BYTES {
                self.ev.discard("larger-than-12kB");
                continue;
            }
            if front::nesting(&t) > MAX_NESTING {
                self.ev.discard("nesting>64");
                continue;
            }
            classes.push(class);
            texts.push(t);
        }
        let (results, hangs, texts) = run_pool(texts, workers());
        for (i, r) in results.iter().enumerate() {
            let Some(rep) = r else { continue };
            self.account(classes[i], &texts[i], rep);
        }
        let not_run = results.iter().filter(|r| r.is_none()).count().saturating_sub(hangs.len());
        if not_run > 0 {
            self.ev.add("cases_not_run_after_hang_candidates", not_run as u64);
        }
        if !hangs.is_empty() {
            self.hang_candidates += hangs.len();
        }
        for (i, stage) in hangs {
            let text = &texts[i];
            let first = format!("hang:{}", STAGES[(stage as usize).min(STAGES.len() - 1)]);
            if self.out.seen(&first) || self.allow.contains(&first) {
                // one confirmation per stage: every further one costs a minute and another spinning thread
                self.ev.add("hang_candidates_not_reconfirmed", 1);
                continue;
            }
            match run_alone(text, HANG_CONFIRM) {
                Ok(rep) => {
                    self.ev.add("slow_cases_over_20s_that_returned_when_rerun", 1);
                    self.account(classes[i], text, &rep);
                }
                Err(stage2) => {
                    let st = STAGES[(stage2.max(stage) as usize).min(STAGES.len() - 1)];
                    let key = format!("hang:{st}");
                    if self.allow.contains(&key) {
                        *self.tolerated.entry(key).or_insert(0) += 1;
                    } else if !self.out.seen(&key) {
                        self.out.violation(
                            self.ev,
                            &key,
                            "incn",
                            text,
                            &format!("input of {} bytes: stage {st} did not return within {} s, and again not within {} s when re-run alone\n{}", text.len(), HANG_FIRST.as_secs(), HANG_CONFIRM.as_secs(), util::truncate(text, 800)),
                        );
                    }
                }
            }
        }
    }

    fn account(&mut self, class: &'static str, text: &str, rep: &Report) {
        let h = util::hash_str(text);
        let fresh = self.seen_inputs.insert(h);
        self.ev.case(if rep.nontrivial() { Some(h) } else { None });
        self.ev.class(class);
        if !fresh {
            self.ev.add("duplicate_inputs", 1);
        }
        let furthest = if rep.emitted_ok {
            "emitted-rust"
        } else if rep.typechecked_ok {
            "typechecked-ok"
        } else if rep.parsed {
            "parsed"
        } else if rep.lexed {
            "lexed"
        } else {
            "lex-error"
        };
        *self.stage_hist.entry(furthest).or_insert(0) += 1;
        for s in &rep.diag_stages {
            *self.diag_hist.entry(s).or_insert(0) += 1;
        }
        let q = self.sample_quota.entry(class).or_insert(0);
        if *q < 1 && self.ev.want_sample() && fresh && rep.nontrivial() && text.len() < 400 && text.len() > 20 && (class != "prefix" || text.len() > 150) {
            *q += 1;
            self.ev.sample(json!({"class": class, "input": text, "furthest_stage": furthest, "diagnostics": rep.diagnostics}));
        }
        let n_cli = self.cli_sample.iter().filter(|c| c.0 == class).count();
        if fresh && n_cli < self.cli_per_class && self.cli_sample.len() < self.cli_max && (n_cli == 0 || h % 13 == 0) && (class != "prefix" || text.len() > 200) {
            let locs = rep.fails.iter().filter_map(|f| f.loc.clone()).collect();
            self.cli_sample.push((class.to_string(), text.to_string(), locs));
        }
        for f in &rep.fails {
            if self.allow.contains(&f.key) {
                *self.tolerated.entry(f.key.clone()).or_insert(0) += 1;
                continue;
            }
            if self.out.seen(&f.key) {
                self.ev.violations += 1;
                continue;
            }
            // minimise the text, keeping the signature
            let key = f.key.clone();
            let small = front::minimize(text, 1500, |cand| {
                let st = AtomicU8::new(0);
                front::judge(cand, &st).fails.iter().any(|x| x.key == key)
            });
            let st = AtomicU8::new(0);
            let what = front::judge(&small, &st).fails.into_iter().find(|x| x.key == key).map(|x| x.what).unwrap_or_else(|| f.what.clone());
            self.out.violation(self.ev, &key, "incn", &small, &format!("{what}\ngenerator class: {class}\n--- minimised input ({} bytes) ---\n{}", small.len(), util::truncate(&small, 1200)));
        }
    }
}

// ------------------------------------------------------------------------------------------------------------
// CLI leg
// ------------------------------------------------------------------------------------------------------------

fn cli_leg(run: &mut Run) {
    let bin = vcore::farm::incan_bin();
    if !bin.exists() {
        run.out.inconclusive(&format!("CLI binary {} not built", bin.display()));
        return;
    }
    let dir = vcore::verif_root().join("work").join(format!("c11-cli-{}", std::process::id()));
    let _ = std::fs::create_dir_all(&dir);
    let sample = std::mem::take(&mut run.cli_sample);
    let cmds: [(&str, &[&str]); 5] = [("lex", &["--lex"]), ("parse", &["--parse"]), ("check", &["--check"]), ("emit-rust", &["--emit-rust"]), ("fmt", &["fmt", "--check"])];
    let jobs: Vec<(usize, usize)> = (0..sample.len()).flat_map(|i| (0..cmds.len()).map(move |c| (i, c))).collect();
    for (i, (_, text, _)) in sample.iter().enumerate() {
        let _ = std::fs::write(dir.join(format!("in{i}.incn")), text);
    }
    use rayon::prelude::*;
    let pool = rayon::ThreadPoolBuilder::new().num_threads(workers()).build().expect("pool");
    let outs: Vec<vcore::farm::CmdOut> = pool.install(|| {
        jobs.par_iter()
            .map(|(i, c)| {
                let mut cmd = std::process::Command::new(&bin);
                cmd.current_dir(&dir);
                let f = format!("in{i}.incn");
                if cmds[*c].0 == "fmt" {
                    cmd.args(["fmt", &f, "--check"]);
                } else {
                    cmd.args(cmds[*c].1).arg(&f);
                }
                cmd.env("NO_COLOR", "1").env("RUST_BACKTRACE", "0");
                vcore::farm::run_cmd(cmd, Duration::from_secs(60))
            })
            .collect()
    });
    let mut hist: BTreeMap<String, u64> = BTreeMap::new();
    for ((i, c), o) in jobs.iter().zip(outs.iter()) {
        let name = cmds[*c].0;
        run.ev.add("cli_invocations", 1);
        let status = match (o.status, o.signal, o.timed_out) {
            (_, _, true) => "timeout".to_string(),
            (_, Some(s), _) => format!("signal-{s}"),
            (Some(s), _, _) => format!("exit-{s}"),
            _ => "unknown".to_string(),
        };
        *hist.entry(format!("{name}:{status}")).or_insert(0) += 1;
        if matches!(o.status, Some(0) | Some(1)) && o.signal.is_none() && !o.timed_out {
            continue;
        }
        let (_, text, inproc_locs) = &sample[*i];
        // panic location from stderr: "panicked at <file>:L:C"
        let loc = o.stderr.lines().find_map(|l| l.split("panicked at ").nth(1)).map(|s| {
            let s = s.trim().trim_end_matches(':');
            let mut it = s.rsplitn(3, ':');
            let _col = it.next();
            let line = it.next().unwrap_or("0");
            let file = it.next().unwrap_or(s);
            format!("{}:{line}", front::norm_path(file))
        });
        let key = match &loc {
            Some(l) => {
                // same root cause as an in-process finding on this very input (reported or tolerated there)?
                if inproc_locs.iter().any(|x| x == l) || run.allow.iter().any(|k| k.contains(l.as_str())) {
                    *run.tolerated.entry(format!("cli:{name}:same-as-in-process:{l}")).or_insert(0) += 1;
                    continue;
                }
                format!("cli:{name}:panic:{l}")
            }
            None => format!("cli:{name}:{status}"),
        };
        if run.allow.contains(&key) {
            *run.tolerated.entry(key).or_insert(0) += 1;
            continue;
        }
        if run.out.seen(&key) {
            run.ev.violations += 1;
            continue;
        }
        run.out.violation(
            run.ev,
            &key,
            "incn",
            text,
            &format!("`incan {}` ended with {status}\nstderr: {}\n--- input ---\n{}", cmds[*c].1.join(" "), util::truncate(o.stderr.trim(), 600), util::truncate(text, 800)),
        );
    }
    run.ev.set("cli_exit_histogram", json!(hist));
    let _ = std::fs::remove_dir_all(&dir);
}

// ------------------------------------------------------------------------------------------------------------

fn load_seeds() -> Vec<(String, String)> {
    let root = vcore::repo_root();
    let mut seen = HashSet::new();
    let mut v = Vec::new();
    for p in util::repo_seed_files() {
        if let Ok(t) = std::fs::read_to_string(&p) {
            if seen.insert(util::hash_str(&t)) {
                v.push((p.strip_prefix(&root).unwrap_or(&p).display().to_string(), t));
            }
        }
    }
    v
}

fn main() {
    let args = Args::parse(PROP);
    front::install_panic_hook();
    let mut out = Outcome::new(PROP);
    let mut ev = Evidence::new(
        &args,
        "inputs: every char-boundary prefix of a fixed set of seed files + proptest-selected mutations of all repository .incn files \
         (15 mutation families) + the directed numeric-literal leg (integer-width boundaries, spellings, exponents x 6 positions) + the directed escape leg (every literal kind x escape introducer x 0-3 following scalars x 3 placements) + the committed fz_frontend corpus; each input is pushed through lex/parse/typecheck/format/emit-rust \
         and every diagnostic through format_error/render_miette/LSP conversion. Non-trivial: the input passes the lexer (reaches the \
         parser) or yields a diagnostic with a non-empty span. Distinct = hash of the input text.",
    );
    ev.assume(&format!("bracket / block / prefix-operator nesting <= {MAX_NESTING} (deeper inputs are skipped and counted)"));
    ev.assume(&format!("inputs <= {MAX_INPUT_BYTES} bytes; a stage that has not returned after {} s and again after {} s alone counts as non-termination", HANG_FIRST.as_secs(), HANG_CONFIRM.as_secs()));
    ev.assume("render_miette is judged only on diagnostics whose span is well-formed (a malformed span is reported as such)");

    let allow: BTreeSet<String> = out.known.open.iter().map(|e| e.key.clone()).collect();

    // ---- replay: the file is the input text
    if let Some(path) = &args.replay {
        let Ok(text) = std::fs::read_to_string(path) else {
            out.inconclusive("replay file is not readable UTF-8 (outside the property's quantifier)");
            std::process::exit(out.finish(&ev));
        };
        match run_alone(&text, HANG_CONFIRM) {
            Ok(rep) => {
                ev.case(rep.nontrivial().then(|| util::hash_str(&text)));
                ev.sample(json!({"input": util::truncate(&text, 600), "diagnostics": rep.diagnostics}));
                for f in &rep.fails {
                    out.violation(&mut ev, &f.key, "incn", &text, &f.what);
                }
            }
            Err(stage) => {
                let key = format!("hang:{}", STAGES[stage as usize % STAGES.len()]);
                out.violation(&mut ev, &key, "incn", &text, "did not return within 60 s");
            }
        }
        std::process::exit(out.finish(&ev));
    }

    // ---- known findings: canonical inputs must still fail with their signature
    for e in out.known.open.clone() {
        let still = match std::fs::read_to_string(&e.replay) {
            Ok(text) => {
                if let Some(stage_name) = e.key.strip_prefix("hang:") {
                    matches!(run_alone(&text, HANG_FIRST), Err(s) if STAGES[s as usize % STAGES.len()] == stage_name)
                } else if e.key.starts_with("cli:") {
                    true // judged by the CLI leg below
                } else {
                    match run_alone(&text, HANG_CONFIRM) {
                        Ok(rep) => rep.fails.iter().any(|f| f.key == e.key),
                        Err(_) => false,
                    }
                }
            }
            Err(_) => false,
        };
        out.known_replayed(&e.key, still);
    }

    let seeds = load_seeds();
    ev.set("seed_files", json!(seeds.len()));
    if seeds.len() < 20 {
        out.inconclusive("fewer than 20 seed files found");
        std::process::exit(out.finish(&ev));
    }
    let dict = front::dictionary();
    ev.set("dictionary_entries", json!(dict.len()));

    // ---- maintenance: (re)write the libFuzzer dictionary and the seed corpus of fz_frontend, then stop
    if args.flag("emit-corpus").is_some() {
        let ddir = vcore::fuzzrun::fuzz_dir().join("dict");
        let _ = std::fs::create_dir_all(&ddir);
        let mut d = String::from("# generated by `c11 --emit-corpus 1` from the keyword/operator/punctuation registries\n");
        for w in &dict {
            d.push('"');
            for b in w.bytes() {
                match b {
                    b'"' => d.push_str("\\\""),
                    b'\\' => d.push_str("\\\\"),
                    0x20..=0x7e => d.push(b as char),
                    _ => d.push_str(&format!("\\x{b:02x}")),
                }
            }
            d.push_str("\"\n");
        }
        let _ = std::fs::write(ddir.join("incan.dict"), d);
        let cdir = vcore::verif_root().join("corpus").join("fz_frontend").join("seed");
        let _ = std::fs::remove_dir_all(&cdir);
        let _ = std::fs::create_dir_all(&cdir);
        for (name, text) in &seeds {
            if text.len() <= 6000 {
                let _ = std::fs::write(cdir.join(name.replace('/', "__")), text);
            }
        }
        for (i, l) in front::BROKEN_LITERALS.iter().enumerate() {
            let _ = std::fs::write(cdir.join(format!("lit{i}.incn")), format!("def main() -> None:\n    x = {l}\n"));
        }
        println!("wrote {} and {}", ddir.join("incan.dict").display(), cdir.display());
        std::process::exit(0);
    }

    let mut run = Run {
        out: &mut out,
        ev: &mut ev,
        allow,
        tolerated: BTreeMap::new(),
        seen_inputs: HashSet::new(),
        stage_hist: BTreeMap::new(),
        diag_hist: BTreeMap::new(),
        sample_quota: BTreeMap::new(),
        cli_sample: Vec::new(),
        cli_per_class: args.tier.pick(1, 20),
        cli_max: args.tier.pick(14, 600),
        hang_candidates: 0,
    };

    // ---- leg A: every char-boundary prefix of a fixed set of seeds (exhaustive within each file)
    let n_prefix_seeds = args.tier.pick(10usize, usize::MAX);
    let mut order: Vec<usize> = (0..seeds.len()).filter(|&i| seeds[i].1.len() <= args.tier.pick(2_600, MAX_INPUT_BYTES)).collect();
    order.sort_by_key(|&i| util::hash_str(&seeds[i].0));
    order.truncate(n_prefix_seeds);
    let mut prefix_names = Vec::new();
    for &i in &order {
        let (name, text) = &seeds[i];
        prefix_names.push(name.clone());
        let mut inputs: Vec<(&'static str, String)> = Vec::new();
        for (p, _) in text.char_indices() {
            inputs.push(("prefix", text[..p].to_string()));
        }
        inputs.push(("prefix", text.clone()));
        run.batch(inputs);
    }
    run.ev.set("prefix_seed_files", json!(prefix_names));
    let t_prefix = run.ev.evaluations;
    let lap = Instant::now();
    if std::env::var("VERIF_TRACE").is_ok() {
        eprintln!("trace: prefix leg done, {} cases", t_prefix);
    }

    // ---- leg A2: directed escape leg, exhaustive within its bounds (literal kind x introducer x following scalars x
    //      placement), plus the same scalars behind every backslash of every seed file
    let esc = front::escape_cases(args.tier == Tier::Thorough);
    run.ev.set("escape_leg_inputs", json!(esc.len()));
    for chunk in esc.chunks(20_000) {
        run.batch(chunk.to_vec());
    }
    let mut spl: Vec<(&'static str, String)> = Vec::new();
    for (_, text) in &seeds {
        if text.len() <= MAX_INPUT_BYTES - 8 {
            spl.extend(front::backslash_splices(text));
        }
    }
    run.ev.set("seed_backslash_splice_inputs", json!(spl.len()));
    for chunk in spl.chunks(20_000) {
        run.batch(chunk.to_vec());
    }

    // ---- leg A3: directed numeric-literal leg (boundary values of every integer width, spellings, radix prefixes,
    //      extreme exponents, malformed shapes) x six syntactic positions
    let nums = front::numeric_cases();
    run.ev.set("numeric_leg_inputs", json!(nums.len()));
    for chunk in nums.chunks(20_000) {
        run.batch(chunk.to_vec());
    }

    // ---- leg B: mutations
    let n_mut = args.flag("mutations").and_then(|v| v.parse().ok()).unwrap_or(args.tier.pick(20_000usize, 2_000_000usize));
    let strat = (any::<u16>(), 0u8..15, any::<[u16; 6]>());
    let mut runner = vcore::gen::runner(args.subseed(111));
    let mut done = 0usize;
    while done < n_mut {
        let n = 15_000usize.min(n_mut - done);
        let trees = vcore::gen::batch(&strat, &mut runner, n);
        let inputs: Vec<(&'static str, String)> = trees
            .iter()
            .map(|t| {
                let (si, class, r) = t.current();
                let seed = &seeds[vcore::gen::idx(si, seeds.len())].1;
                front::mutate(seed, class, &r, &dict)
            })
            .collect();
        run.batch(inputs);
        done += n;
    }

    if std::env::var("VERIF_TRACE").is_ok() {
        eprintln!("trace: mutation leg done in {:?}", lap.elapsed());
    }
    // ---- leg C: committed fuzz corpus, in-process
    let corpus = vcore::fuzzrun::corpus_files("fz_frontend");
    let mut inputs: Vec<(&'static str, String)> = Vec::new();
    for (_, bytes) in &corpus {
        match std::str::from_utf8(bytes) {
            Ok(s) => inputs.push(("fuzz-corpus", s.to_string())),
            Err(_) => run.ev.discard("corpus-file-not-utf8"),
        }
    }
    // canonical inputs of all recorded findings (open ones are tolerated by signature, repaired ones must pass)
    if let Ok(rd) = std::fs::read_dir(vcore::verif_root().join("known").join(PROP)) {
        let mut ps: Vec<_> = rd.flatten().map(|e| e.path()).collect();
        ps.sort();
        for p in ps {
            if let Ok(t) = std::fs::read_to_string(&p) {
                inputs.push(("regression:recorded-finding", t));
            }
        }
    }
    run.ev.set("fuzz_corpus_files", json!(corpus.len()));
    run.batch(inputs);

    // ---- leg D: CLI
    if std::env::var("VERIF_TRACE").is_ok() {
        eprintln!("trace: corpus leg done at {:?}", lap.elapsed());
    }
    cli_leg(&mut run);
    if std::env::var("VERIF_TRACE").is_ok() {
        eprintln!("trace: cli leg done at {:?}", lap.elapsed());
    }

    let tolerated = std::mem::take(&mut run.tolerated);
    let (stage_hist, diag_hist) = (std::mem::take(&mut run.stage_hist), std::mem::take(&mut run.diag_hist));
    drop(run);
    for (k, n) in &tolerated {
        ev.exclude_n(k, *n);
    }
    ev.set("furthest_stage_histogram", json!(stage_hist));
    ev.set("inputs_with_diagnostics_from_stage", json!(diag_hist));

    // ---- leg E: libFuzzer (thorough)
    let known_keys: Vec<String> = out.known.open.iter().map(|e| e.key.clone()).collect();
    let r = vcore::fuzzrun::run_target("fz_frontend", &args, args.flag("fuzz-runs").and_then(|v| v.parse().ok()).unwrap_or(args.tier.pick(0u64, 3_000_000u64)), &known_keys);
    ev.set("fz_frontend", r.stats.clone());
    if let Some(why) = &r.infra {
        if args.tier == Tier::Thorough {
            out.inconclusive(&format!("fz_frontend: {why}"));
        }
    }
    for (name, bytes) in &r.artifacts {
        let Ok(text) = std::str::from_utf8(bytes) else { continue };
        match run_alone(text, HANG_CONFIRM) {
            Ok(rep) => {
                let news: Vec<&front::Fail> = rep.fails.iter().filter(|f| !out.is_known(&f.key)).collect();
                if news.is_empty() {
                    out.inconclusive(&format!("fz_frontend artifact {name} is accepted by the in-process oracle: {}", util::truncate(&r.log_tail, 300)));
                }
                for f in news {
                    let key = f.key.clone();
                    let small = front::minimize(text, 1500, |cand| {
                        let st = AtomicU8::new(0);
                        front::judge(cand, &st).fails.iter().any(|x| x.key == key)
                    });
                    out.violation(&mut ev, &key, "incn", &small, &format!("{} (found by fz_frontend, artifact {name})\n{}", f.what, util::truncate(&small, 800)));
                }
            }
            Err(stage) => {
                let key = format!("hang:{}", STAGES[stage as usize % STAGES.len()]);
                if !out.is_known(&key) {
                    out.violation(&mut ev, &key, "incn", text, &format!("fz_frontend artifact {name}: no return within 60 s"));
                }
            }
        }
    }

    std::process::exit(out.finish(&ev));
}
