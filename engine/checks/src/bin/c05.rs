//! C05 — indexing, slicing and range follow Python for every argument.
//!
//! Legs
//! 1. in-process: proptest-generated (sequence, index) / (sequence, start, end, step) / range(a, b, c) / dict
//!    lookups with edge-biased arguments (None, 0, +-1, +-2, +-len, +-(len+-1), i64::MIN/MAX and neighbours, +-2^62,
//!    uniform), strings over ASCII / 2- / 3- / 4-byte scalars / combining marks / controls. Oracle: an independent
//!    model of CPython's PySlice_AdjustIndices and range length formula in i128 (`vcore::pymodel`). The real
//!    functions `incan_core::strings::{str_char_at, str_slice}`, `incan_stdlib::strings::{str_index, str_slice}`,
//!    `incan_stdlib::collections::{list_get, list_get_mut, list_slice, dict_get}`, `incan_stdlib::iter::range` are
//!    called under `catch`; panics must carry exactly the documented texts. Iterators are consumed with
//!    `take(expected + 2)` so that a wrong length or a runaway loop is a wrong answer, not a hang.
//! 2. end to end (farm): generated programs with every syntactic slice shape on strings and lists, literal /
//!    variable / `k + d` operands, `for x in range(..)` loops with 1-3 arguments, dict lookups; the error cases are
//!    the last statement of their own program (prints before, panic text on stderr, non-zero exit).
//! 3. thorough only: the model is cross-checked against CPython (mismatch = engine bug, exit 2).

use incan_core::strings as cs;
use incan_stdlib::{collections as rc, iter as ri, strings as rs};
use proptest::prelude::*;
use proptest::sample::select;
use proptest::strategy::ValueTree;
use rayon::prelude::*;
use serde_json::{json, Value};
use std::collections::HashMap;
use vcore::farm::{Farm, FarmOut, Mode, Project};
use vcore::pymodel as py;
use vcore::{util, Args, Evidence, Outcome};

const E_STR_INDEX: &str = "IndexError: string index out of range";
const E_SLICE_STEP: &str = "ValueError: slice step cannot be zero";
const E_RANGE_STEP: &str = "ValueError: range() arg 3 must not be zero";

/// Known-finding signatures (root cause + construct). While an entry is open in known-findings.txt the
/// generators avoid the construct (counted) and the canonical input is replayed.
const K_STR_OVF: &str = "str_slice:step-add-overflow";
const K_LIST_OVF: &str = "list_slice:step-add-overflow";
const K_RANGE_OVF: &str = "range:step-add-overflow";
const K_PARSE_CC: &str = "parse:slice-double-colon";
/// Integer literals are emitted unsuffixed and `let` drops the `int` annotation: a literal-initialised local whose
/// only use is a cast (`(i) as i64` for index/slice operands and the range step) is typed i32 by rustc's fallback.
/// Beyond i32 the build fails; near the i32 limits `k + 1` silently wraps. (Same root cause as the C04 finding.)
const K_I32: &str = "e2e:untyped-int-i32-fallback";
/// `xs: list[int] = []` is emitted as `let xs = vec![];` (annotation dropped): when the list is only sliced/indexed
/// rustc cannot infer the element type and the build fails.
const K_EMPTY_LIST: &str = "e2e:empty-list-literal-untyped";
/// Residue of K_I32 after literals beyond i32 got an `i64` suffix (fix 9b0eb51): a local initialised with a literal
/// that fits i32 is still typed i32 when its only use is under a cast, so `k + d` is i32 arithmetic; when the sum
/// leaves i32 rustc rejects the program (`attempt to compute i32::MAX + 1_i32`).
const K_I32_ARITH: &str = "e2e:int-local-i32-arithmetic";
/// Variable operands in cast positions stay below this magnitude while K_I32 is open.
const I32_SAFE: i64 = (1 << 31) - 16;

#[derive(Clone, Copy, Default)]
struct KnownOpen {
    str_ovf: bool,
    list_ovf: bool,
    range_ovf: bool,
    parse_cc: bool,
    i32_fallback: bool,
    i32_arith: bool,
    empty_list: bool,
}

/// How many elements of a range are compared at most (longer ranges: the prefix is judged).
const RANGE_CAP: i128 = 48;

// ------------------------------------------------------------------------------------------------
// cases
// ------------------------------------------------------------------------------------------------

#[derive(Clone, Debug, PartialEq, Eq, Hash)]
enum Case {
    Index { chars: Vec<char>, i: i64 },
    Slice { chars: Vec<char>, start: Option<i64>, end: Option<i64>, step: Option<i64> },
    Range { a: i64, b: i64, c: i64 },
    Dict { keys: Vec<String>, probe: String },
}

fn opt_json(v: Option<i64>) -> Value {
    match v {
        None => Value::Null,
        Some(x) => json!(x.to_string()),
    }
}
fn opt_from(v: &Value) -> Option<i64> {
    v.as_str().and_then(|s| s.parse().ok()).or_else(|| v.as_i64())
}

impl Case {
    fn to_json(&self) -> Value {
        match self {
            Case::Index { chars, i } => json!({"case": "index", "seq": chars.iter().collect::<String>(), "i": i.to_string()}),
            Case::Slice { chars, start, end, step } => {
                json!({"case": "slice", "seq": chars.iter().collect::<String>(), "start": opt_json(*start), "end": opt_json(*end), "step": opt_json(*step)})
            }
            Case::Range { a, b, c } => json!({"case": "range", "a": a.to_string(), "b": b.to_string(), "c": c.to_string()}),
            Case::Dict { keys, probe } => json!({"case": "dict", "keys": keys, "probe": probe}),
        }
    }
    fn from_json(v: &Value) -> Option<Case> {
        let chars = || v["seq"].as_str().map(|s| s.chars().collect::<Vec<char>>());
        match v["case"].as_str()? {
            "index" => Some(Case::Index { chars: chars()?, i: opt_from(&v["i"])? }),
            "slice" => Some(Case::Slice { chars: chars()?, start: opt_from(&v["start"]), end: opt_from(&v["end"]), step: opt_from(&v["step"]) }),
            "range" => Some(Case::Range { a: opt_from(&v["a"])?, b: opt_from(&v["b"])?, c: opt_from(&v["c"])? }),
            "dict" => Some(Case::Dict {
                keys: v["keys"].as_array()?.iter().filter_map(|k| k.as_str().map(|s| s.to_string())).collect(),
                probe: v["probe"].as_str()?.to_string(),
            }),
            _ => None,
        }
    }
    fn type_name(&self) -> &'static str {
        match self {
            Case::Index { .. } => "index",
            Case::Slice { .. } => "slice",
            Case::Range { .. } => "range",
            Case::Dict { .. } => "dict",
        }
    }
}

struct Fail {
    key: String,
    what: String,
}

/// Does the positive-step walk `i += step` leave i64 after the last visited position? (root cause of the
/// step-add-overflow findings; never possible for negative steps because visited positions are >= 0)
fn slice_step_overflows(len: usize, start: Option<i64>, end: Option<i64>, step: Option<i64>) -> bool {
    match py::slice_plan(len, start, end, step) {
        Ok(p) if p.step > 0 && p.len >= 1 => p.start + (p.len - 1) * p.step + p.step > i64::MAX as i128,
        _ => false,
    }
}

/// Does `cur += step` leave i64 after the last element of the range?
fn range_step_overflows(a: i64, b: i64, c: i64) -> bool {
    match py::range_len(a, b, c) {
        Ok(n) if n >= 1 => {
            let next = py::range_at(a, c, n - 1) + c as i128;
            next > i64::MAX as i128 || next < i64::MIN as i128
        }
        _ => false,
    }
}

fn is_extreme(v: i64) -> bool {
    v.unsigned_abs() >= (1u64 << 31)
}

/// Non-triviality rule (DESIGN.md C05).
fn nontrivial(c: &Case) -> bool {
    match c {
        Case::Index { chars, i } => *i < 0 || py::index_pos(chars.len(), *i).is_none() || chars.iter().any(|c| !c.is_ascii()),
        Case::Slice { chars, start, end, step } => {
            let n = chars.len() as i128;
            let outside = |v: &Option<i64>| v.is_some_and(|x| (x as i128) < -n || (x as i128) > n);
            let neg = |v: &Option<i64>| v.is_some_and(|x| x < 0);
            neg(start) || neg(end) || neg(step) || outside(start) || outside(end) || step.is_some_and(|s| s.unsigned_abs() > 1 || s == 0)
                || [start, end, step].iter().any(|v| v.is_some_and(is_extreme))
                || chars.iter().any(|c| !c.is_ascii())
        }
        Case::Range { a, b, c } => *c != 1 || *a < 0 || *b < *a || is_extreme(*a) || is_extreme(*b),
        Case::Dict { keys, probe } => !keys.contains(probe) || !probe.is_ascii(),
    }
}

// ------------------------------------------------------------------------------------------------
// in-process oracle
// ------------------------------------------------------------------------------------------------

fn list_index_text(i: i64, n: usize) -> String {
    format!("IndexError: index {i} out of range for list of length {n}")
}

fn judge_index(chars: &[char], i: i64, fails: &mut Vec<Fail>) {
    let s: String = chars.iter().collect();
    let n = chars.len();
    let want = py::index_pos(n, i).map(|p| chars[p]);
    let ctx = format!("seq={s:?} (len {n}) i={i}");

    // semantic core
    match util::catch(|| cs::str_char_at(&s, i)) {
        Err(m) => fails.push(Fail { key: "str_char_at:panic".into(), what: format!("{ctx}: {m}") }),
        Ok(Ok(got)) => match want {
            Some(w) if got == w.to_string() => {}
            Some(w) => fails.push(Fail { key: "str_char_at:wrong-element".into(), what: format!("{ctx}: got {got:?}, Python gives {w:?}") }),
            None => fails.push(Fail { key: "str_char_at:out-of-range-not-raised".into(), what: format!("{ctx}: got {got:?}, Python raises IndexError") }),
        },
        Ok(Err(e)) => {
            if want.is_some() {
                fails.push(Fail { key: "str_char_at:spurious-error".into(), what: format!("{ctx}: {e:?} for an index that is in range") });
            } else if e != cs::StringAccessError::IndexOutOfRange || e.to_string() != E_STR_INDEX {
                fails.push(Fail { key: "str_char_at:wrong-error-text".into(), what: format!("{ctx}: error {e:?} displays as {:?}", e.to_string()) });
            }
        }
    }
    // runtime string helper
    match (util::catch(|| rs::str_index(&s, i)), want) {
        (Ok(got), Some(w)) if got == w.to_string() => {}
        (Ok(got), Some(w)) => fails.push(Fail { key: "str_index:wrong-element".into(), what: format!("{ctx}: got {got:?}, Python gives {w:?}") }),
        (Ok(got), None) => fails.push(Fail { key: "str_index:out-of-range-not-raised".into(), what: format!("{ctx}: got {got:?}, documented: panic {E_STR_INDEX:?}") }),
        (Err(m), None) if util::panic_text(&m) == E_STR_INDEX => {}
        (Err(m), None) => fails.push(Fail { key: "str_index:wrong-error-text".into(), what: format!("{ctx}: panic {m:?}, documented {E_STR_INDEX:?}") }),
        (Err(m), Some(_)) => fails.push(Fail { key: "str_index:panic".into(), what: format!("{ctx}: in-range index panicked: {m}") }),
    }
    // lists: shared and mutable access, Copy and Clone element types
    let strs: Vec<String> = chars.iter().map(|c| c.to_string()).collect();
    let mut mchars = chars.to_vec();
    let results: [(&str, Result<String, String>); 3] = [
        ("list_get", util::catch(|| rc::list_get(chars, i).to_string())),
        ("list_get_mut", util::catch(|| rc::list_get_mut(&mut mchars, i).to_string())),
        ("list_get", util::catch(|| rc::list_get(&strs, i).clone())),
    ];
    let doc = list_index_text(i, n);
    for (who, r) in results {
        match (r, want) {
            (Ok(got), Some(w)) if got == w.to_string() => {}
            (Ok(got), Some(w)) => fails.push(Fail { key: format!("{who}:wrong-element"), what: format!("{ctx}: got {got:?}, Python gives {w:?}") }),
            (Ok(got), None) => fails.push(Fail { key: format!("{who}:out-of-range-not-raised"), what: format!("{ctx}: got {got:?}, documented: panic {doc:?}") }),
            (Err(m), None) if util::panic_text(&m) == doc => {}
            (Err(m), None) => fails.push(Fail { key: format!("{who}:wrong-error-text"), what: format!("{ctx}: panic {m:?}, documented {doc:?}") }),
            (Err(m), Some(_)) => fails.push(Fail { key: format!("{who}:panic"), what: format!("{ctx}: in-range index panicked: {m}") }),
        }
    }
}

/// Returns the known-finding keys because of which (parts of) the case were not judged.
fn judge_slice(chars: &[char], start: Option<i64>, end: Option<i64>, step: Option<i64>, known: KnownOpen, fails: &mut Vec<Fail>) -> Vec<&'static str> {
    let s: String = chars.iter().collect();
    let n = chars.len();
    let plan = py::slice_plan(n, start, end, step);
    let ovf = slice_step_overflows(n, start, end, step);
    let ctx = format!("seq={s:?} (len {n}) [{start:?}:{end:?}:{step:?}]");
    let mut excluded = Vec::new();
    let want_chars: Option<Vec<char>> = plan.as_ref().ok().map(|p| p.positions().into_iter().map(|k| chars[k]).collect());
    let want_str: Option<String> = want_chars.as_ref().map(|v| v.iter().collect());

    // ---- strings (core + runtime wrapper)
    if ovf && known.str_ovf {
        excluded.push(K_STR_OVF);
    } else {
        let class = |k: &str| if ovf { K_STR_OVF.to_string() } else { format!("str_slice:{k}") };
        let core = util::catch(|| cs::str_slice(&s, start, end, step));
        match (&core, &want_str) {
            (Err(m), _) => fails.push(Fail { key: class("panic"), what: format!("{ctx}: core str_slice panicked: {m}") }),
            (Ok(Ok(got)), Some(w)) if got == w => {}
            (Ok(Ok(got)), Some(w)) => fails.push(Fail { key: class("wrong-elements"), what: format!("{ctx}: core str_slice gives {got:?}, Python gives {w:?}") }),
            (Ok(Ok(got)), None) => fails.push(Fail { key: "str_slice:step-zero-not-raised".into(), what: format!("{ctx}: core str_slice gives {got:?}") }),
            (Ok(Err(e)), None) if *e == cs::StringAccessError::SliceStepZero && e.to_string() == E_SLICE_STEP => {}
            (Ok(Err(e)), _) => fails.push(Fail { key: "str_slice:wrong-error".into(), what: format!("{ctx}: core str_slice error {e:?} ({})", e) }),
        }
        let rt = util::catch(|| rs::str_slice(&s, start, end, step));
        match (&rt, &want_str) {
            (Ok(got), Some(w)) if got == w => {}
            (Ok(got), Some(w)) => fails.push(Fail { key: class("wrong-elements"), what: format!("{ctx}: stdlib str_slice gives {got:?}, Python gives {w:?}") }),
            (Ok(got), None) => fails.push(Fail { key: "str_slice:step-zero-not-raised".into(), what: format!("{ctx}: stdlib str_slice gives {got:?}, documented: panic {E_SLICE_STEP:?}") }),
            (Err(m), None) if util::panic_text(m) == E_SLICE_STEP => {}
            (Err(m), None) => fails.push(Fail { key: "str_slice:wrong-error-text".into(), what: format!("{ctx}: panic {m:?}, documented {E_SLICE_STEP:?}") }),
            (Err(m), Some(_)) => fails.push(Fail { key: class("panic"), what: format!("{ctx}: stdlib str_slice panicked: {m}") }),
        }
        // parity core <-> runtime wrapper
        let same = match (&core, &rt) {
            (Ok(Ok(a)), Ok(b)) => a == b,
            (Ok(Err(e)), Err(m)) => e.to_string() == util::panic_text(m),
            (Err(a), Err(b)) => util::panic_text(a) == util::panic_text(b),
            _ => false,
        };
        if !same {
            fails.push(Fail { key: "parity:str_slice".into(), what: format!("{ctx}: core {core:?} vs stdlib {rt:?}") });
        }
    }

    // ---- lists (second copy of the algorithm), Copy and Clone element types
    if ovf && known.list_ovf {
        excluded.push(K_LIST_OVF);
    } else {
        let class = |k: &str| if ovf { K_LIST_OVF.to_string() } else { format!("list_slice:{k}") };
        let strs: Vec<String> = chars.iter().map(|c| c.to_string()).collect();
        let results: [Result<Vec<String>, String>; 2] = [
            util::catch(|| rc::list_slice(chars, start, end, step).iter().map(|c| c.to_string()).collect()),
            util::catch(|| rc::list_slice(&strs, start, end, step)),
        ];
        let want: Option<Vec<String>> = want_chars.as_ref().map(|v| v.iter().map(|c| c.to_string()).collect());
        for r in results {
            match (r, &want) {
                (Ok(got), Some(w)) if &got == w => {}
                (Ok(got), Some(w)) => fails.push(Fail { key: class("wrong-elements"), what: format!("{ctx}: list_slice gives {got:?}, Python gives {w:?}") }),
                (Ok(got), None) => fails.push(Fail { key: "list_slice:step-zero-not-raised".into(), what: format!("{ctx}: list_slice gives {got:?}, documented: panic {E_SLICE_STEP:?}") }),
                (Err(m), None) if util::panic_text(&m) == E_SLICE_STEP => {}
                (Err(m), None) => fails.push(Fail { key: "list_slice:wrong-error-text".into(), what: format!("{ctx}: panic {m:?}, documented {E_SLICE_STEP:?}") }),
                (Err(m), Some(_)) => fails.push(Fail { key: class("panic"), what: format!("{ctx}: list_slice panicked: {m}") }),
            }
        }
    }
    excluded
}

fn judge_range(a: i64, b: i64, c: i64, known: KnownOpen, fails: &mut Vec<Fail>) -> Vec<&'static str> {
    let ctx = format!("range({a}, {b}, {c})");
    let ovf = range_step_overflows(a, b, c);
    match py::range_len(a, b, c) {
        Err(()) => match util::catch(|| ri::range(a, b, c).take(2).collect::<Vec<i64>>()) {
            Ok(v) => fails.push(Fail { key: "range:step-zero-not-raised".into(), what: format!("{ctx}: yields {v:?}.., documented: panic {E_RANGE_STEP:?}") }),
            Err(m) if util::panic_text(&m) == E_RANGE_STEP => {}
            Err(m) => fails.push(Fail { key: "range:wrong-error-text".into(), what: format!("{ctx}: panic {m:?}, documented {E_RANGE_STEP:?}") }),
        },
        Ok(n) => {
            let observable_end = n <= RANGE_CAP;
            if ovf && observable_end && known.range_ovf {
                return vec![K_RANGE_OVF];
            }
            let class = |k: &str| if ovf && observable_end { K_RANGE_OVF.to_string() } else { format!("range:{k}") };
            let shown = n.min(RANGE_CAP);
            let want: Vec<i128> = (0..shown).map(|k| py::range_at(a, c, k)).collect();
            match util::catch(|| ri::range(a, b, c).take(shown as usize + 2).collect::<Vec<i64>>()) {
                Err(m) => fails.push(Fail { key: class("panic"), what: format!("{ctx}: panicked: {m}") }),
                Ok(got) => {
                    let got128: Vec<i128> = got.iter().map(|v| *v as i128).collect();
                    let prefix_ok = got128.len() >= want.len() && got128[..want.len()] == want[..];
                    if !prefix_ok {
                        let k = if got128.len() < want.len() && want[..got128.len()] == got128[..] { "too-short" } else { "wrong-elements" };
                        fails.push(Fail { key: class(k), what: format!("{ctx}: yields {:?}, Python yields {:?} (len {n})", util::truncate(&format!("{got:?}"), 300), util::truncate(&format!("{want:?}"), 300)) });
                    } else if observable_end && got128.len() > want.len() {
                        fails.push(Fail {
                            key: class("too-long-or-endless"),
                            what: format!("{ctx}: Python yields exactly {n} elements {:?}; the iterator went on with {:?}", util::truncate(&format!("{want:?}"), 300), &got[want.len()..]),
                        });
                    }
                }
            }
        }
    }
    Vec::new()
}

fn judge_dict(keys: &[String], probe: &str, fails: &mut Vec<Fail>) {
    let map: HashMap<String, i64> = keys.iter().enumerate().map(|(i, k)| (k.clone(), i as i64)).collect();
    // last writer wins for duplicate keys, as in a Python dict display
    let want = keys.iter().rposition(|k| k == probe).map(|i| i as i64);
    let ctx = format!("dict keys={keys:?} probe={probe:?}");
    let doc = format!("KeyError: '{probe}' not found in dict");
    let p = probe.to_string();
    match (util::catch(|| *rc::dict_get(&map, &p)), want) {
        (Ok(g), Some(w)) if g == w => {}
        (Ok(g), Some(w)) => fails.push(Fail { key: "dict_get:wrong-value".into(), what: format!("{ctx}: got {g}, want {w}") }),
        (Ok(g), None) => fails.push(Fail { key: "dict_get:missing-key-not-raised".into(), what: format!("{ctx}: got {g}, documented: panic {doc:?}") }),
        (Err(m), None) if util::panic_text(&m) == doc => {}
        (Err(m), None) => fails.push(Fail { key: "dict_get:wrong-error-text".into(), what: format!("{ctx}: panic {m:?}, documented {doc:?}") }),
        (Err(m), Some(_)) => fails.push(Fail { key: "dict_get:panic".into(), what: format!("{ctx}: present key panicked: {m}") }),
    }
    // integer keys
    let imap: HashMap<i64, i64> = (0..keys.len() as i64).map(|k| (k * 3 - 4, k)).collect();
    let iprobe = probe.chars().count() as i64 - 4;
    let iwant = imap.get(&iprobe).copied();
    let idoc = format!("KeyError: '{iprobe}' not found in dict");
    match (util::catch(|| *rc::dict_get(&imap, &iprobe)), iwant) {
        (Ok(g), Some(w)) if g == w => {}
        (Err(m), None) if util::panic_text(&m) == idoc => {}
        (r, w) => fails.push(Fail { key: "dict_get:int-key".into(), what: format!("int-key dict {imap:?} probe {iprobe}: {r:?}, want {w:?} / {idoc:?}") }),
    }
}

fn judge_case(c: &Case, known: KnownOpen) -> (Vec<Fail>, Vec<&'static str>) {
    let mut fails = Vec::new();
    let excluded = match c {
        Case::Index { chars, i } => {
            judge_index(chars, *i, &mut fails);
            Vec::new()
        }
        Case::Slice { chars, start, end, step } => judge_slice(chars, *start, *end, *step, known, &mut fails),
        Case::Range { a, b, c } => judge_range(*a, *b, *c, known, &mut fails),
        Case::Dict { keys, probe } => {
            judge_dict(keys, probe, &mut fails);
            Vec::new()
        }
    };
    (fails, excluded)
}

// ------------------------------------------------------------------------------------------------
// generators
// ------------------------------------------------------------------------------------------------

const ALPHABET: &[char] = &['a', 'b', 'z', '0', ' ', 'é', 'ß', '€', '你', '😀', '🦀', '\u{301}', '\t', '\u{1}', '\u{7f}'];

/// Argument written relative to the sequence length, resolved when the case is built (keeps shrinking simple).
#[derive(Clone, Debug)]
enum ArgSpec {
    None,
    Small(i64),
    Len { neg: bool, delta: i64 },
    /// a position inside the sequence: `idx(raw, len)` or, with `neg`, the same position counted from the end
    In { raw: u16, neg: bool },
    Abs(i64),
}

impl ArgSpec {
    fn resolve(&self, len: usize) -> Option<i64> {
        match self {
            ArgSpec::None => None,
            ArgSpec::Small(v) => Some(*v),
            ArgSpec::Len { neg, delta } => Some(if *neg { -(len as i64) + delta } else { len as i64 + delta }),
            ArgSpec::In { raw, neg } => {
                let k = vcore::gen::idx(*raw, len.max(1)) as i64;
                Some(if *neg { k - len.max(1) as i64 } else { k })
            }
            ArgSpec::Abs(v) => Some(*v),
        }
    }
}

const EXTREMES: &[i64] = &[i64::MIN, i64::MIN + 1, i64::MAX, i64::MAX - 1, 1 << 62, -(1 << 62), 1 << 32, -(1 << 32), (1 << 31) - 1, -(1 << 31)];

fn extreme_s() -> BoxedStrategy<i64> {
    prop_oneof![
        2 => select(EXTREMES),
        2 => (select(EXTREMES), -14i64..=14).prop_map(|(e, d)| e.saturating_add(d)),
        1 => any::<i64>(),
    ]
    .boxed()
}

fn bound_s(none_weight: u32) -> BoxedStrategy<ArgSpec> {
    prop_oneof![
        none_weight => Just(ArgSpec::None),
        5 => (any::<u16>(), any::<bool>()).prop_map(|(raw, neg)| ArgSpec::In { raw, neg }),
        3 => (-15i64..=15).prop_map(ArgSpec::Small),
        3 => (any::<bool>(), -2i64..=2).prop_map(|(neg, delta)| ArgSpec::Len { neg, delta }),
        2 => extreme_s().prop_map(ArgSpec::Abs),
    ]
    .boxed()
}

fn step_s() -> BoxedStrategy<ArgSpec> {
    prop_oneof![
        6 => Just(ArgSpec::None),
        12 => select(vec![1i64, -1, 2, -2, 3, -3, 5, -5]).prop_map(ArgSpec::Small),
        1 => Just(ArgSpec::Small(0)),
        2 => (any::<bool>(), -1i64..=1).prop_map(|(neg, delta)| ArgSpec::Len { neg, delta }),
        5 => extreme_s().prop_map(ArgSpec::Abs),
    ]
    .boxed()
}

fn chars_s() -> BoxedStrategy<Vec<char>> {
    proptest::collection::vec(select(ALPHABET), 0..=12).boxed()
}

fn range_s() -> BoxedStrategy<Case> {
    let start = prop_oneof![3 => -20i64..=20, 3 => extreme_s(), 1 => any::<i64>()];
    let step = prop_oneof![10 => select(vec![1i64, -1, 2, -2, 3, -3, 7, -7]), 1 => Just(0i64), 5 => extreme_s(), 2 => -1000i64..=1000];
    prop_oneof![
        // constructed: end chosen so that the range has n elements (give or take `slack`), saturated into i64
        6 => (start.clone(), step.clone(), 0i128..=7, -2i128..=2).prop_map(|(a, c, n, slack)| {
            let b = (a as i128 + n * c as i128 + slack).clamp(i64::MIN as i128, i64::MAX as i128) as i64;
            Case::Range { a, b, c }
        }),
        2 => (start.clone(), start, step).prop_map(|(a, b, c)| Case::Range { a, b, c }),
    ]
    .boxed()
}

fn case_s() -> BoxedStrategy<Case> {
    prop_oneof![
        3 => (chars_s(), bound_s(0)).prop_map(|(chars, i)| {
            let i = i.resolve(chars.len()).unwrap_or(0);
            Case::Index { chars, i }
        }),
        8 => (chars_s(), bound_s(3), bound_s(3), step_s()).prop_map(|(chars, s, e, st)| {
            let n = chars.len();
            Case::Slice { start: s.resolve(n), end: e.resolve(n), step: st.resolve(n), chars }
        }),
        4 => range_s(),
        1 => (proptest::collection::vec(proptest::collection::vec(select(ALPHABET), 0..=3).prop_map(|v| v.into_iter().collect::<String>()), 0..=5), proptest::collection::vec(select(ALPHABET), 0..=3), any::<u16>(), any::<bool>())
            .prop_map(|(keys, other, pick, present)| {
                let probe = if present && !keys.is_empty() { keys[vcore::gen::idx(pick, keys.len())].clone() } else { other.into_iter().collect() };
                Case::Dict { keys, probe }
            }),
    ]
    .boxed()
}

fn classes_of(c: &Case, ev: &mut Evidence) {
    ev.class(&format!("case:{}", c.type_name()));
    match c {
        Case::Index { chars, i } => {
            let cls = if py::index_pos(chars.len(), *i).is_none() { "index:out-of-range" } else if *i < 0 { "index:negative" } else { "index:non-negative" };
            ev.class(cls);
        }
        Case::Slice { chars, start, end, step } => {
            ev.class(&format!("slice-shape:[{}:{}:{}]", if start.is_some() { "a" } else { "" }, if end.is_some() { "b" } else { "" }, if step.is_some() { "c" } else { "" }));
            let st = step.unwrap_or(1);
            ev.class(match st {
                0 => "slice-step:zero",
                1 => "slice-step:+1",
                -1 => "slice-step:-1",
                s if s > 0 && is_extreme(s) => "slice-step:+extreme",
                s if s < 0 && is_extreme(s) => "slice-step:-extreme",
                s if s > 0 => "slice-step:+n",
                _ => "slice-step:-n",
            });
            if let Ok(p) = py::slice_plan(chars.len(), *start, *end, *step) {
                ev.class(match p.len {
                    0 => "slice-result:empty",
                    1 => "slice-result:1",
                    _ => "slice-result:2+",
                });
            }
        }
        Case::Range { a, b, c } => match py::range_len(*a, *b, *c) {
            Err(()) => ev.class("range:step-zero"),
            Ok(0) => ev.class("range-len:0"),
            Ok(n) if n <= RANGE_CAP => ev.class("range-len:1..cap"),
            Ok(_) => ev.class("range-len:>cap (prefix judged)"),
        },
        Case::Dict { keys, probe } => ev.class(if keys.contains(probe) { "dict:present" } else { "dict:missing" }),
    }
}

// ------------------------------------------------------------------------------------------------
// end-to-end programs
// ------------------------------------------------------------------------------------------------

/// Alphabet for string literals in generated sources (nothing that needs escaping).
const SRC_ALPHABET: &[char] = &['a', 'b', 'c', 'x', 'Z', '7', ' ', 'é', 'ß', '€', '你', '😀', '🦀', '\u{301}'];

#[derive(Clone, Debug)]
enum OperandForm {
    Lit,
    Var,
    /// `k + d` / `k - d` where k is a variable
    Sum(i64),
}

#[derive(Clone, Debug)]
struct Operand {
    value: i64,
    form: OperandForm,
}

impl Operand {
    fn to_json(&self) -> Value {
        match &self.form {
            OperandForm::Lit => json!({"v": self.value.to_string(), "form": "lit"}),
            OperandForm::Var => json!({"v": self.value.to_string(), "form": "var"}),
            OperandForm::Sum(d) => json!({"v": self.value.to_string(), "form": "sum", "d": d}),
        }
    }
    fn from_json(v: &Value) -> Option<Operand> {
        let value = opt_from(&v["v"])?;
        let form = match v["form"].as_str()? {
            "lit" => OperandForm::Lit,
            "var" => OperandForm::Var,
            "sum" => OperandForm::Sum(v["d"].as_i64()?),
            _ => return None,
        };
        Some(Operand { value, form })
    }
}

fn operand_has_i32_arith(o: &Operand) -> bool {
    match &o.form {
        OperandForm::Sum(d) => o.value.checked_sub(*d).is_some_and(|k| i32::try_from(k).is_ok()) && i32::try_from(o.value).is_err(),
        _ => false,
    }
}

fn operand_needs_i32_avoidance(o: &Operand) -> bool {
    let safe = |v: i64| v.unsigned_abs() < I32_SAFE as u64;
    match &o.form {
        // a literal directly under the cast takes its type from the cast; i64::MIN needs an expression
        OperandForm::Lit => o.value == i64::MIN,
        OperandForm::Var => !safe(o.value),
        OperandForm::Sum(d) => !safe(o.value) || !o.value.checked_sub(*d).is_some_and(safe),
    }
}

fn int_literal(v: i64) -> String {
    if v == i64::MIN {
        "-9223372036854775807 - 1".to_string()
    } else {
        v.to_string()
    }
}

/// Emit the declarations needed by an operand and return its expression text.
fn operand_text(o: &Operand, name: &str, decls: &mut String) -> String {
    match &o.form {
        OperandForm::Lit if o.value != i64::MIN => o.value.to_string(),
        OperandForm::Sum(d) if o.value.checked_sub(*d).is_some() && *d != 0 && *d != i64::MIN => {
            let k = o.value - d;
            *decls += &format!("    {name}: int = {}\n", int_literal(k));
            if *d > 0 {
                format!("{name} + {d}")
            } else {
                format!("{name} - {}", -d)
            }
        }
        _ => {
            *decls += &format!("    {name}: int = {}\n", int_literal(o.value));
            name.to_string()
        }
    }
}

#[derive(Clone, Debug)]
enum Recv {
    Str(String),
    Ints(Vec<i64>),
    Strs(Vec<String>),
}

impl Recv {
    fn len(&self) -> usize {
        match self {
            Recv::Str(s) => s.chars().count(),
            Recv::Ints(v) => v.len(),
            Recv::Strs(v) => v.len(),
        }
    }
    fn elems(&self) -> Vec<String> {
        match self {
            Recv::Str(s) => s.chars().map(|c| c.to_string()).collect(),
            Recv::Ints(v) => v.iter().map(|x| x.to_string()).collect(),
            Recv::Strs(v) => v.clone(),
        }
    }
    fn kind(&self) -> &'static str {
        match self {
            Recv::Str(_) => "str",
            Recv::Ints(_) => "list[int]",
            Recv::Strs(_) => "list[str]",
        }
    }
    fn to_json(&self) -> Value {
        match self {
            Recv::Str(s) => json!({"str": s}),
            Recv::Ints(v) => json!({"ints": v}),
            Recv::Strs(v) => json!({"strs": v}),
        }
    }
    fn from_json(v: &Value) -> Option<Recv> {
        if let Some(s) = v["str"].as_str() {
            return Some(Recv::Str(s.to_string()));
        }
        if let Some(a) = v["ints"].as_array() {
            return Some(Recv::Ints(a.iter().filter_map(|x| x.as_i64()).collect()));
        }
        let a = v["strs"].as_array()?;
        Some(Recv::Strs(a.iter().filter_map(|x| x.as_str().map(|s| s.to_string())).collect()))
    }
    /// (declaration lines, expression)
    fn render(&self, name: &str, inline_literal: bool) -> (String, String) {
        let q = |s: &str| format!("\"{s}\"");
        match self {
            Recv::Str(s) if inline_literal => (String::new(), q(s)),
            Recv::Str(s) => (format!("    {name}: str = {}\n", q(s)), name.to_string()),
            Recv::Ints(v) => (format!("    {name}: list[int] = [{}]\n", v.iter().map(|x| x.to_string()).collect::<Vec<_>>().join(", ")), name.to_string()),
            Recv::Strs(v) => (format!("    {name}: list[str] = [{}]\n", v.iter().map(|x| q(x)).collect::<Vec<_>>().join(", ")), name.to_string()),
        }
    }
}

#[derive(Clone, Debug)]
enum EStmt {
    Index { recv: Recv, inline: bool, i: Operand },
    Slice { recv: Recv, inline: bool, start: Option<Operand>, end: Option<Operand>, step: Option<Operand> },
    /// 1, 2 or 3 arguments
    Range { args: Vec<Operand> },
    Dict { keys: Vec<String>, probe: String },
}

#[derive(Clone, Debug, PartialEq)]
enum Expect {
    Lines(Vec<String>),
    /// the statement stops the program with this message
    Error(String),
}

impl EStmt {
    fn to_json(&self) -> Value {
        let oj = |o: &Option<Operand>| o.as_ref().map(|x| x.to_json()).unwrap_or(Value::Null);
        match self {
            EStmt::Index { recv, inline, i } => json!({"stmt": "index", "recv": recv.to_json(), "inline": inline, "i": i.to_json()}),
            EStmt::Slice { recv, inline, start, end, step } => json!({"stmt": "slice", "recv": recv.to_json(), "inline": inline, "start": oj(start), "end": oj(end), "step": oj(step)}),
            EStmt::Range { args } => json!({"stmt": "range", "args": args.iter().map(|a| a.to_json()).collect::<Vec<_>>()}),
            EStmt::Dict { keys, probe } => json!({"stmt": "dict", "keys": keys, "probe": probe}),
        }
    }
    fn from_json(v: &Value) -> Option<EStmt> {
        let inline = v["inline"].as_bool().unwrap_or(false);
        match v["stmt"].as_str()? {
            "index" => Some(EStmt::Index { recv: Recv::from_json(&v["recv"])?, inline, i: Operand::from_json(&v["i"])? }),
            "slice" => Some(EStmt::Slice {
                recv: Recv::from_json(&v["recv"])?,
                inline,
                start: Operand::from_json(&v["start"]),
                end: Operand::from_json(&v["end"]),
                step: Operand::from_json(&v["step"]),
            }),
            "range" => Some(EStmt::Range { args: v["args"].as_array()?.iter().filter_map(Operand::from_json).collect() }),
            "dict" => Some(EStmt::Dict {
                keys: v["keys"].as_array()?.iter().filter_map(|k| k.as_str().map(|s| s.to_string())).collect(),
                probe: v["probe"].as_str()?.to_string(),
            }),
            _ => None,
        }
    }

    /// The argument tuple of the statement as an in-process case (used for the non-triviality rule).
    fn as_case(&self) -> Case {
        let v = |o: &Option<Operand>| o.as_ref().map(|x| x.value);
        let chars = |r: &Recv| -> Vec<char> { r.elems().iter().map(|e| e.chars().next().unwrap_or('\u{e9}')).collect() };
        match self {
            EStmt::Index { recv, i, .. } => Case::Index { chars: chars(recv), i: i.value },
            EStmt::Slice { recv, start, end, step, .. } => Case::Slice { chars: chars(recv), start: v(start), end: v(end), step: v(step) },
            EStmt::Range { args } => {
                let (a, b, c) = Self::range_triple(args);
                Case::Range { a, b, c }
            }
            EStmt::Dict { keys, probe } => Case::Dict { keys: keys.clone(), probe: probe.clone() },
        }
    }

    /// Syntactic shape, e.g. `str[a::c]`, `list[int][i]`, `range/3`.
    fn shape(&self) -> String {
        match self {
            EStmt::Index { recv, .. } => format!("{}[i]", recv.kind()),
            EStmt::Slice { recv, start, end, step, .. } => {
                let a = if start.is_some() { "a" } else { "" };
                let b = if end.is_some() { "b" } else { "" };
                match step {
                    Some(_) => format!("{}[{a}:{b}:c]", recv.kind()),
                    None => format!("{}[{a}:{b}]", recv.kind()),
                }
            }
            EStmt::Range { args } => format!("range/{}", args.len()),
            EStmt::Dict { .. } => "dict[k]".to_string(),
        }
    }

    /// Does the natural spelling contain the `::` token?
    fn has_double_colon(&self) -> bool {
        matches!(self, EStmt::Slice { end: None, step: Some(_), .. })
    }

    fn range_triple(args: &[Operand]) -> (i64, i64, i64) {
        match args.len() {
            1 => (0, args[0].value, 1),
            2 => (args[0].value, args[1].value, 1),
            _ => (args[0].value, args[1].value, args[2].value),
        }
    }

    fn expect(&self) -> Expect {
        match self {
            EStmt::Index { recv, i, .. } => match py::index_pos(recv.len(), i.value) {
                Some(p) => Expect::Lines(vec![recv.elems()[p].clone()]),
                None => Expect::Error(match recv {
                    Recv::Str(_) => E_STR_INDEX.to_string(),
                    _ => list_index_text(i.value, recv.len()),
                }),
            },
            EStmt::Slice { recv, start, end, step, .. } => {
                let v = |o: &Option<Operand>| o.as_ref().map(|x| x.value);
                match py::slice_plan(recv.len(), v(start), v(end), v(step)) {
                    Err(()) => Expect::Error(E_SLICE_STEP.to_string()),
                    Ok(p) => {
                        let el = recv.elems();
                        let picked: Vec<String> = p.positions().into_iter().map(|k| el[k].clone()).collect();
                        match recv {
                            Recv::Str(_) => Expect::Lines(vec![picked.concat()]),
                            _ => {
                                let mut l = picked;
                                l.push("|".to_string());
                                Expect::Lines(l)
                            }
                        }
                    }
                }
            }
            EStmt::Range { args } => {
                let (a, b, c) = Self::range_triple(args);
                match py::range_len(a, b, c) {
                    Err(()) => Expect::Error(E_RANGE_STEP.to_string()),
                    Ok(n) => {
                        let mut l: Vec<String> = (0..n).map(|k| py::range_at(a, c, k).to_string()).collect();
                        l.push("|".to_string());
                        Expect::Lines(l)
                    }
                }
            }
            EStmt::Dict { keys, probe } => match keys.iter().rposition(|k| k == probe) {
                Some(i) => Expect::Lines(vec![i.to_string()]),
                None => Expect::Error(format!("KeyError: '{probe}' not found in dict")),
            },
        }
    }

    /// Is the statement inside a construct that an open known finding says is broken?
    fn known_construct(&self, known: KnownOpen) -> Option<&'static str> {
        match self {
            EStmt::Slice { recv, start, end, step, .. } => {
                let v = |o: &Option<Operand>| o.as_ref().map(|x| x.value);
                if slice_step_overflows(recv.len(), v(start), v(end), v(step)) {
                    match recv {
                        Recv::Str(_) if known.str_ovf => return Some(K_STR_OVF),
                        Recv::Ints(_) | Recv::Strs(_) if known.list_ovf => return Some(K_LIST_OVF),
                        _ => {}
                    }
                }
                None
            }
            EStmt::Range { args } => {
                let (a, b, c) = Self::range_triple(args);
                (range_step_overflows(a, b, c) && known.range_ovf).then_some(K_RANGE_OVF)
            }
            _ => None,
        }
    }

    /// The construct of known finding K_EMPTY_LIST: an annotated local bound to the empty list literal.
    fn has_empty_list_construct(&self) -> bool {
        match self {
            EStmt::Index { recv, .. } | EStmt::Slice { recv, .. } => matches!(recv, Recv::Ints(v) if v.is_empty()) || matches!(recv, Recv::Strs(v) if v.is_empty()),
            _ => false,
        }
    }

    /// Give the empty list one element (the statement keeps its shape). Returns true when changed.
    fn avoid_empty_list(&mut self) -> bool {
        if !self.has_empty_list_construct() {
            return false;
        }
        if let EStmt::Index { recv, .. } | EStmt::Slice { recv, .. } = self {
            match recv {
                Recv::Ints(v) => v.push(7),
                Recv::Strs(v) => v.push("é".to_string()),
                Recv::Str(_) => {}
            }
        }
        true
    }

    /// Operands that the emitter wraps in a cast (`(x) as i64`): index, slice bounds/step, third range argument.
    fn cast_operands_mut(&mut self) -> Vec<&mut Operand> {
        match self {
            EStmt::Index { i, .. } => vec![i],
            EStmt::Slice { start, end, step, .. } => [start, end, step].into_iter().filter_map(|o| o.as_mut()).collect(),
            EStmt::Range { args } if args.len() == 3 => vec![&mut args[2]],
            _ => vec![],
        }
    }

    /// The construct of known finding K_I32: a variable operand in a cast position whose literal initialiser (or
    /// the value of `k + d`) is not safely inside i32.
    fn has_i32_fallback_construct(&self) -> bool {
        let mut c = self.clone();
        c.cast_operands_mut().iter().any(|o| operand_needs_i32_avoidance(o))
    }

    /// The construct of known finding K_I32_ARITH: `k + d` in a cast position where k fits i32 and k + d does not.
    fn has_i32_arith_construct(&self) -> bool {
        let mut c = self.clone();
        c.cast_operands_mut().iter().any(|o| operand_has_i32_arith(o))
    }

    /// Write the K_I32_ARITH construct as a literal (same argument value). Returns true when changed.
    fn avoid_i32_arith(&mut self) -> bool {
        let mut changed = false;
        for o in self.cast_operands_mut() {
            if operand_has_i32_arith(o) {
                o.form = OperandForm::Lit;
                changed = true;
            }
        }
        changed
    }

    /// Rewrite the K_I32 construct away (same argument values, written as literals). Returns true when changed.
    fn avoid_i32_fallback(&mut self) -> bool {
        let mut changed = false;
        for o in self.cast_operands_mut() {
            if operand_needs_i32_avoidance(o) {
                o.form = OperandForm::Lit;
                if o.value == i64::MIN {
                    // i64::MIN has no literal spelling (`-9223372036854775807 - 1` is i32 arithmetic under a cast)
                    o.value = i64::MIN + 1;
                }
                changed = true;
            }
        }
        changed
    }

    /// Root-cause signature for a wrong result of this statement.
    fn overflow_key(&self) -> Option<&'static str> {
        let all = KnownOpen { str_ovf: true, list_ovf: true, range_ovf: true, parse_cc: true, i32_fallback: true, i32_arith: true, empty_list: true };
        self.known_construct(all)
    }

    /// Source lines of the statement `j`. `spaced`: write `: :` instead of `::`.
    fn render(&self, j: usize, spaced: bool) -> String {
        let mut decls = String::new();
        let body = match self {
            EStmt::Index { recv, inline, i } => {
                let (d, r) = recv.render(&format!("s{j}"), *inline);
                decls += &d;
                let it = operand_text(i, &format!("i{j}"), &mut decls);
                format!("    print({r}[{it}])\n")
            }
            EStmt::Slice { recv, inline, start, end, step } => {
                let (d, r) = recv.render(&format!("s{j}"), *inline);
                decls += &d;
                let a = start.as_ref().map(|o| operand_text(o, &format!("a{j}"), &mut decls)).unwrap_or_default();
                let b = end.as_ref().map(|o| operand_text(o, &format!("b{j}"), &mut decls)).unwrap_or_default();
                let inner = match step {
                    None => format!("{a}:{b}"),
                    Some(o) => {
                        let c = operand_text(o, &format!("c{j}"), &mut decls);
                        if b.is_empty() && spaced {
                            format!("{a}: :{c}")
                        } else {
                            format!("{a}:{b}:{c}")
                        }
                    }
                };
                match recv {
                    Recv::Str(_) => format!("    print({r}[{inner}])\n"),
                    _ => format!("    for v{j} in {r}[{inner}]:\n        print(v{j})\n    print(\"|\")\n"),
                }
            }
            EStmt::Range { args } => {
                let texts: Vec<String> = args.iter().enumerate().map(|(k, o)| operand_text(o, &format!("r{j}_{k}"), &mut decls)).collect();
                // the loop bounds itself (expected length + 2), so a runaway iterator shows up as extra output lines
                // instead of a hang — the program-level analogue of `take(expected + 2)`
                let (a, b, c) = Self::range_triple(args);
                let limit = py::range_len(a, b, c).unwrap_or(0) + 2;
                decls += &format!("    mut n{j}: int = 0\n");
                format!(
                    "    for x{j} in range({}):\n        print(x{j})\n        n{j} += 1\n        if n{j} > {limit}:\n            break\n    print(\"|\")\n",
                    texts.join(", ")
                )
            }
            EStmt::Dict { keys, probe } => {
                let entries: Vec<String> = keys.iter().enumerate().map(|(i, k)| format!("\"{k}\": {i}")).collect();
                decls += &format!("    d{j}: Dict[str, int] = {{{}}}\n", entries.join(", "));
                format!("    print(d{j}[\"{probe}\"])\n")
            }
        };
        decls + &body
    }
}

fn render_program(stmts: &[EStmt], spaced: bool) -> String {
    let mut s = String::from("def main() -> None:\n");
    for (j, st) in stmts.iter().enumerate() {
        s += &st.render(j, spaced);
    }
    if stmts.is_empty() {
        s += "    pass\n";
    }
    s
}

/// Judge one program's output. Only the last statement may expect an error.
fn judge_program(stmts: &[EStmt], o: &FarmOut) -> Result<Vec<(usize, Fail)>, String> {
    if let Some(e) = &o.infra_error {
        return Err(e.clone());
    }
    let build = o.build.as_ref().ok_or("no build result")?;
    let mut fails = Vec::new();
    if !build.ok() {
        let text = format!("{}\n{}", build.stdout, build.stderr);
        let cc = text.contains("ColonColon") && stmts.iter().any(|s| s.has_double_colon());
        let key = if cc {
            K_PARSE_CC.to_string()
        } else if text.contains("literal out of range for `i32`") && stmts.iter().any(|s| s.has_i32_fallback_construct()) {
            K_I32.to_string()
        } else if (text.contains("arithmetic_overflow") || text.contains("attempt to compute")) && stmts.iter().any(|s| s.has_i32_arith_construct()) {
            K_I32_ARITH.to_string()
        } else if text.contains("type annotations needed for `Vec<_>`") && stmts.iter().any(|s| s.has_empty_list_construct()) {
            K_EMPTY_LIST.to_string()
        } else if stmts.len() == 1 {
            format!("e2e:build-failed:{}", stmts[0].shape())
        } else {
            "e2e:build-failed".to_string()
        };
        fails.push((usize::MAX, Fail { key, what: format!("incan build failed:\n{}", util::truncate(&text, 2500)) }));
        return Ok(fails);
    }
    let run = o.run.as_ref().ok_or("no run result")?;
    if run.timed_out {
        // a runaway loop in a generated program is a verdict only when the model says the program is finite and
        // small, which is always the case here; still, a watchdog never yields a verdict (DESIGN section 3)
        return Err("watchdog: generated binary did not finish".into());
    }
    let lines: Vec<&str> = run.stdout.split('\n').collect();
    let lines = if lines.last() == Some(&"") { &lines[..lines.len() - 1] } else { &lines[..] };
    let mut pos = 0usize;
    let mut error_expected: Option<(usize, String)> = None;
    for (j, st) in stmts.iter().enumerate() {
        let who = format!("e2e:{}", st.shape());
        match st.expect() {
            Expect::Lines(want) => {
                let got: Vec<&str> = lines.iter().skip(pos).take(want.len()).copied().collect();
                if got.len() != want.len() || got.iter().zip(want.iter()).any(|(g, w)| g != w) {
                    let key = st.overflow_key().map(|k| k.to_string()).unwrap_or_else(|| format!("{who}:wrong-output"));
                    fails.push((j, Fail {
                        key,
                        what: format!("statement {j} ({}) printed {:?}, Python semantics give {:?}; status {:?}; stderr: {}", st.shape(), got, want, run.status, util::truncate(&run.stderr, 400)),
                    }));
                    return Ok(fails);
                }
                pos += want.len();
            }
            Expect::Error(text) => {
                if j + 1 != stmts.len() {
                    return Err("generator bug: error statement is not last".into());
                }
                error_expected = Some((j, text));
            }
        }
    }
    match error_expected {
        Some((j, text)) => {
            let who = format!("e2e:{}", stmts[j].shape());
            if lines.len() > pos {
                fails.push((j, Fail { key: format!("{who}:error-not-raised"), what: format!("printed {:?} where the documented behaviour is a panic with {text:?}", &lines[pos..]) }));
            } else if run.status == Some(0) {
                fails.push((j, Fail { key: format!("{who}:error-exit-0"), what: format!("exit status 0 where the documented behaviour is a panic with {text:?}") }));
            } else if !run.stderr.lines().any(|l| l == text) {
                fails.push((j, Fail { key: format!("{who}:wrong-error-text"), what: format!("stderr lacks the line {text:?}:\n{}", util::truncate(&run.stderr, 800)) }));
            }
        }
        None => {
            if run.status != Some(0) {
                fails.push((usize::MAX, Fail { key: "e2e:nonzero-exit".into(), what: format!("status {:?} signal {:?}; stderr: {}", run.status, run.signal, util::truncate(&run.stderr, 800)) }));
            } else if lines.len() != pos {
                fails.push((usize::MAX, Fail { key: "e2e:extra-output".into(), what: format!("extra output lines {:?}", &lines[pos..]) }));
            }
        }
    }
    Ok(fails)
}

fn program_json(stmts: &[EStmt], spaced: bool) -> Value {
    json!({"leg": "e2e", "spaced_double_colon": spaced, "statements": stmts.iter().map(|s| s.to_json()).collect::<Vec<_>>(), "source": render_program(stmts, spaced)})
}

/// Two signatures name the same failure class (a build failure is keyed by shape only once it is isolated).
fn same_class(a: &str, b: &str) -> bool {
    a == b || (a.contains("build-failed") && b.contains("build-failed"))
}

/// Manual shrinking of a failing program: the named statement alone if that still fails the same way, otherwise
/// bisection (both halves are built in parallel; an error statement stays the last one of its half).
fn shrink_program(farm: &Farm, stmts: &[EStmt], spaced: bool, idx: usize, key: &str) -> (Vec<EStmt>, Option<Fail>) {
    let fails_with = |cand: &[EStmt], o: &FarmOut| -> Option<Fail> { judge_program(cand, o).ok()?.into_iter().map(|(_, f)| f).find(|f| same_class(&f.key, key)) };
    if idx != usize::MAX && stmts.len() > 1 {
        let single = vec![stmts[idx].clone()];
        let o = farm.run_many(&[Project::single("c05min", &render_program(&single, spaced))], Mode::BuildRun);
        if let Some(f) = fails_with(&single, &o[0]) {
            return (single, Some(f));
        }
    }
    let mut cur: Vec<EStmt> = stmts.to_vec();
    let mut last: Option<Fail> = None;
    while cur.len() > 1 {
        let (l, r) = cur.split_at(cur.len() / 2);
        let o = farm.run_many(&[Project::single("c05bl", &render_program(l, spaced)), Project::single("c05br", &render_program(r, spaced))], Mode::BuildRun);
        if let Some(f) = fails_with(l, &o[0]) {
            last = Some(f);
            cur = l.to_vec();
        } else if let Some(f) = fails_with(r, &o[1]) {
            last = Some(f);
            cur = r.to_vec();
        } else {
            break;
        }
    }
    (cur, last)
}

/// Build + run programs; one report per distinct signature, shrunk first.
fn run_programs(farm: &Farm, programs: &[Vec<EStmt>], spaced: bool, out: &mut Outcome, ev: &mut Evidence) {
    let projects: Vec<Project> = programs.iter().enumerate().map(|(i, st)| Project::single(&format!("c05p{i}"), &render_program(st, spaced))).collect();
    let outs = farm.run_many(&projects, Mode::BuildRun);
    for (stmts, o) in programs.iter().zip(outs.iter()) {
        let fails = match judge_program(stmts, o) {
            Err(e) => {
                out.inconclusive(&format!("farm: {e}"));
                continue;
            }
            Ok(f) => f,
        };
        for (idx, f) in fails {
            ev.violations += 1;
            if out.seen(&f.key) || out.violations.len() >= out.max_reports {
                continue;
            }
            let (small, f_small) = shrink_program(farm, stmts, spaced, idx, &f.key);
            let f = f_small.unwrap_or(f);
            if out.seen(&f.key) {
                continue;
            }
            let body = serde_json::to_string_pretty(&program_json(&small, spaced)).unwrap();
            out.violation(ev, &f.key, "json", &body, &format!("{}\n--- program ---\n{}", f.what, util::truncate(&render_program(&small, spaced), 2500)));
        }
    }
}

// ---- e2e generators

fn src_string_s() -> BoxedStrategy<String> {
    proptest::collection::vec(select(SRC_ALPHABET), 0..=9).prop_map(|v| v.into_iter().collect::<String>()).boxed()
}

fn recv_s() -> BoxedStrategy<Recv> {
    prop_oneof![
        3 => src_string_s().prop_map(Recv::Str),
        2 => proptest::collection::vec(-50i64..=50, 0..=7).prop_map(Recv::Ints),
        1 => proptest::collection::vec(proptest::collection::vec(select(SRC_ALPHABET), 0..=2).prop_map(|v| v.into_iter().collect::<String>()), 0..=5).prop_map(Recv::Strs),
    ]
    .boxed()
}

fn form_s() -> BoxedStrategy<OperandForm> {
    prop_oneof![4 => Just(OperandForm::Lit), 2 => Just(OperandForm::Var), 1 => select(vec![1i64, -1, 2, -3]).prop_map(OperandForm::Sum)].boxed()
}

fn operand_s(spec: BoxedStrategy<ArgSpec>) -> BoxedStrategy<(ArgSpec, OperandForm)> {
    (spec, form_s()).boxed()
}

fn resolve_op(x: (ArgSpec, OperandForm), len: usize) -> Option<Operand> {
    x.0.resolve(len).map(|value| Operand { value, form: x.1 })
}

/// Value statements (no error expected); the shape index forces every syntactic slice shape to turn up.
fn estmt_s() -> BoxedStrategy<EStmt> {
    prop_oneof![
        3 => (recv_s(), any::<bool>(), operand_s(bound_s(0))).prop_map(|(recv, inline, i)| {
            let n = recv.len();
            let mut i = resolve_op(i, n).unwrap_or(Operand { value: 0, form: OperandForm::Lit });
            // keep the index in range (error statements are generated separately): fold into [-n, n)
            if n == 0 {
                // no valid index exists: use a 1-element receiver instead
                return EStmt::Index { recv: Recv::Str("€".to_string()), inline, i: Operand { value: if i.value < 0 { -1 } else { 0 }, form: i.form } };
            }
            if py::index_pos(n, i.value).is_none() {
                i.value = (i.value as i128).rem_euclid(2 * n as i128) as i64 - n as i64;
            }
            EStmt::Index { recv, inline, i }
        }),
        9 => (recv_s(), any::<bool>(), 0usize..8, operand_s(bound_s(0)), operand_s(bound_s(0)), operand_s(step_s())).prop_map(|(recv, inline, shape, a, b, c)| {
            let n = recv.len();
            // shapes: [a:b] [:b] [a:] [:] [a:b:c] [::c] [a::c] [:b:c]
            let (ha, hb, hc) = [(true, true, false), (false, true, false), (true, false, false), (false, false, false), (true, true, true), (false, false, true), (true, false, true), (false, true, true)][shape];
            let start = if ha { resolve_op(a, n) } else { None };
            let end = if hb { resolve_op(b, n) } else { None };
            let mut step = if hc { resolve_op(c, n).or(Some(Operand { value: -1, form: OperandForm::Lit })) } else { None };
            if let Some(s) = &mut step {
                if s.value == 0 {
                    s.value = -2;
                }
            }
            EStmt::Slice { recv, inline, start, end, step }
        }),
        4 => (range_s(), 1usize..=3, form_s(), form_s(), form_s()).prop_map(|(r, nargs, f1, f2, f3)| {
            let Case::Range { a, b, c } = r else { unreachable!() };
            let c = if c == 0 { 3 } else { c };
            // keep the loop small: the model must be able to print every element
            let (a, b, c) = if py::range_len(a, b, c).unwrap_or(0) > 12 { (a, a.saturating_add(c.signum() * 5), c.signum() * 2) } else { (a, b, c) };
            let args = match nargs {
                1 => vec![Operand { value: (b as i128 - a as i128).clamp(-3, 9) as i64, form: f1 }],
                2 => {
                    // step 1: shorten so that at most 12 elements are printed
                    let b2 = if (b as i128 - a as i128) > 12 { a.saturating_add(4) } else { b };
                    vec![Operand { value: a, form: f1 }, Operand { value: b2, form: f2 }]
                }
                _ => vec![Operand { value: a, form: f1 }, Operand { value: b, form: f2 }, Operand { value: c, form: f3 }],
            };
            EStmt::Range { args }
        }),
        1 => (proptest::collection::vec(proptest::collection::vec(select(SRC_ALPHABET), 0..=3).prop_map(|v| v.into_iter().collect::<String>()), 1..=4), any::<u16>()).prop_map(|(mut keys, pick)| {
            // distinct keys only (what a duplicate key in a dict display means is not part of the property)
            let mut seen = std::collections::BTreeSet::new();
            keys.retain(|k| seen.insert(k.clone()));
            let probe = keys[vcore::gen::idx(pick, keys.len())].clone();
            EStmt::Dict { keys, probe }
        }),
    ]
    .boxed()
}

/// Error statements by kind index (rotated by seed in the quick tier).
const N_ERROR_KINDS: usize = 7;
fn error_stmt(kind: usize, runner: &mut proptest::test_runner::TestRunner) -> EStmt {
    let recv_str = vcore::gen::one(&src_string_s(), runner).unwrap_or_default();
    let ints = vcore::gen::one(&proptest::collection::vec(-50i64..=50, 0..=6), runner).unwrap_or_default();
    let far = vcore::gen::one(&prop_oneof![1 => 0i64..=3, 1 => extreme_s().prop_map(|v| v.unsigned_abs().min(i64::MAX as u64 - 20) as i64)], runner).unwrap_or(0);
    let neg = vcore::gen::one(&any::<bool>(), runner).unwrap_or(false);
    let form = vcore::gen::one(&form_s(), runner).unwrap_or(OperandForm::Lit);
    let oob = |n: usize| -> i64 {
        if neg {
            -(n as i64) - 1 - far
        } else {
            n as i64 + far
        }
    };
    match kind % N_ERROR_KINDS {
        0 => {
            let n = recv_str.chars().count();
            EStmt::Index { recv: Recv::Str(recv_str), inline: neg, i: Operand { value: oob(n), form } }
        }
        1 => {
            let n = ints.len();
            EStmt::Index { recv: Recv::Ints(ints), inline: false, i: Operand { value: oob(n), form } }
        }
        2 => EStmt::Slice { recv: Recv::Str(recv_str), inline: true, start: Some(Operand { value: 0, form: OperandForm::Lit }), end: Some(Operand { value: 3, form: OperandForm::Lit }), step: Some(Operand { value: 0, form }) },
        3 => EStmt::Slice { recv: Recv::Ints(ints), inline: false, start: None, end: Some(Operand { value: 2, form: OperandForm::Lit }), step: Some(Operand { value: 0, form }) },
        4 => EStmt::Range { args: vec![Operand { value: 0, form: OperandForm::Lit }, Operand { value: 5, form: OperandForm::Lit }, Operand { value: 0, form }] },
        5 => {
            let keys = vec!["a".to_string(), recv_str.clone() + "k"];
            EStmt::Dict { keys, probe: recv_str + "?" }
        }
        _ => {
            let strs: Vec<String> = recv_str.chars().map(|c| c.to_string()).collect();
            let n = strs.len();
            EStmt::Index { recv: Recv::Strs(strs), inline: false, i: Operand { value: oob(n), form } }
        }
    }
}

// ------------------------------------------------------------------------------------------------
// CPython cross-check of the model (thorough)
// ------------------------------------------------------------------------------------------------

const PY_SCRIPT: &str = r#"
import sys, itertools
def opt(t): return None if t == 'N' else int(t)
out = []
for line in sys.stdin:
    t = line.rstrip('\n').split(' ')
    try:
        if t[0] == 'i':
            n = int(t[1]); out.append(str(list(range(n))[int(t[2])]))
        elif t[0] == 's':
            n = int(t[1]); out.append(','.join(map(str, list(range(n))[opt(t[2]):opt(t[3]):opt(t[4])])))
        else:
            r = range(int(t[1]), int(t[2]), int(t[3]))
            try:
                n = str(len(r))
            except OverflowError:
                n = 'big'
            out.append(n + ':' + ','.join(map(str, itertools.islice(r, 48))))
    except IndexError:
        out.append('IndexError')
    except ValueError:
        out.append('ValueError')
sys.stdout.write('\n'.join(out) + '\n')
"#;

fn cpython_crosscheck(cases: &[Case], work: &std::path::Path) -> Result<u64, String> {
    use std::io::Write;
    let _ = std::fs::create_dir_all(work);
    let inp = work.join("xcheck_in.txt");
    let o = |v: &Option<i64>| v.map(|x| x.to_string()).unwrap_or_else(|| "N".to_string());
    let mut used: Vec<&Case> = Vec::new();
    {
        let mut f = std::io::BufWriter::new(std::fs::File::create(&inp).map_err(|e| e.to_string())?);
        for c in cases {
            match c {
                Case::Index { chars, i } => writeln!(f, "i {} {}", chars.len(), i),
                Case::Slice { chars, start, end, step } => writeln!(f, "s {} {} {} {}", chars.len(), o(start), o(end), o(step)),
                Case::Range { a, b, c } => writeln!(f, "r {a} {b} {c}"),
                Case::Dict { .. } => continue,
            }
            .map_err(|e| e.to_string())?;
            used.push(c);
        }
    }
    let output = std::process::Command::new("python3")
        .arg("-c")
        .arg(PY_SCRIPT)
        .stdin(std::fs::File::open(&inp).map_err(|e| e.to_string())?)
        .output()
        .map_err(|e| format!("python3: {e}"))?;
    let _ = std::fs::remove_file(&inp);
    if !output.status.success() {
        return Err(format!("python3 failed: {}", util::truncate(&String::from_utf8_lossy(&output.stderr), 600)));
    }
    let text = String::from_utf8_lossy(&output.stdout);
    let lines: Vec<&str> = text.lines().collect();
    if lines.len() != used.len() {
        return Err(format!("python3 answered {} lines for {} cases", lines.len(), used.len()));
    }
    let join = |v: Vec<String>| v.join(",");
    for (c, line) in used.iter().zip(lines) {
        let model = match c {
            Case::Index { chars, i } => py::index_pos(chars.len(), *i).map(|p| p.to_string()).unwrap_or_else(|| "IndexError".into()),
            Case::Slice { chars, start, end, step } => match py::slice_plan(chars.len(), *start, *end, *step) {
                Err(()) => "ValueError".into(),
                Ok(p) => join(p.positions().into_iter().map(|k| k.to_string()).collect()),
            },
            Case::Range { a, b, c } => match py::range_len(*a, *b, *c) {
                Err(()) => "ValueError".into(),
                Ok(n) => {
                    let shown = if n > i64::MAX as i128 { "big".to_string() } else { n.to_string() };
                    format!("{shown}:{}", join((0..n.min(48)).map(|k| py::range_at(*a, *c, k).to_string()).collect()))
                }
            },
            Case::Dict { .. } => continue,
        };
        if model != line {
            return Err(format!("model disagrees with CPython on {}: model {model:?}, CPython {line:?}", c.to_json()));
        }
    }
    Ok(used.len() as u64)
}

// ------------------------------------------------------------------------------------------------
// main
// ------------------------------------------------------------------------------------------------

fn report(out: &mut Outcome, ev: &mut Evidence, c: &Case, fails: &[Fail]) {
    for f in fails {
        if out.seen(&f.key) {
            ev.violations += 1;
            continue;
        }
        let mut j = c.to_json();
        j["leg"] = json!("kernel");
        j["signature"] = json!(f.key);
        j["what"] = json!(f.what);
        out.violation(ev, &f.key, "json", &serde_json::to_string_pretty(&j).unwrap(), &f.what);
    }
}

/// Replay the canonical inputs of the open known findings; print KNOWN-FINDING when they still fail that way.
fn replay_known(out: &mut Outcome, farm: &mut Option<Farm>) {
    let entries = out.known.open.clone();
    let none = KnownOpen::default();
    for e in entries {
        let text = std::fs::read_to_string(&e.replay).unwrap_or_default();
        let Ok(v) = serde_json::from_str::<Value>(&text) else {
            out.inconclusive(&format!("known finding {}: canonical input {} unreadable", e.key, e.replay.display()));
            continue;
        };
        let still = if v["leg"] == "e2e" {
            let stmts: Vec<EStmt> = v["statements"].as_array().map(|a| a.iter().filter_map(EStmt::from_json).collect()).unwrap_or_default();
            let spaced = v["spaced_double_colon"].as_bool().unwrap_or(false);
            let f = farm.get_or_insert_with(|| {
                let mut f = Farm::new("c05");
                f.run_timeout = std::time::Duration::from_secs(180);
                f
            });
            let o = f.run_many(&[Project::single("c05known", &render_program(&stmts, spaced))], Mode::BuildRun);
            match judge_program(&stmts, &o[0]) {
                Ok(fails) => fails.iter().any(|(_, f)| f.key == e.key),
                Err(why) => {
                    out.inconclusive(&format!("known finding {}: {why}", e.key));
                    continue;
                }
            }
        } else {
            match Case::from_json(&v) {
                Some(c) => judge_case(&c, none).0.iter().any(|f| f.key == e.key),
                None => {
                    out.inconclusive(&format!("known finding {}: canonical input not understood", e.key));
                    continue;
                }
            }
        };
        out.known_replayed(&e.key, still);
    }
}

fn main() {
    let args = Args::parse("C05");
    util::install_quiet_panic_hook();
    let mut out = Outcome::new("C05");
    let mut ev = Evidence::new(
        &args,
        "one case = (sequence, index) | (sequence, start, end, step) | range(a, b, c) | (dict, key). Non-trivial: a negative \
         index/bound/step, a bound outside [-len, len], |step| > 1, a value of magnitude >= 2^31, a non-ASCII scalar in the \
         sequence, or an expected error (out of range, zero step, missing key); ranges: step != 1, negative start, empty, or \
         extreme bounds. Distinct = hash of the concrete argument tuple.",
    );
    ev.assume("sequences have 0..12 elements; range elements are compared up to the first 48 (longer ranges: prefix only)");
    ev.assume("the engine is built with overflow-checks off, like generated binaries (--release): arithmetic overflow in the kernels is judged by its effect (wrong element, wrong length, runaway iterator), not by the debug-build panic");
    ev.assume("a slice kernel that never terminates would hang the check (watchdog -> inconclusive); iterators are bounded with take()");

    let known = KnownOpen {
        str_ovf: out.is_known(K_STR_OVF),
        list_ovf: out.is_known(K_LIST_OVF),
        range_ovf: out.is_known(K_RANGE_OVF),
        parse_cc: out.is_known(K_PARSE_CC),
        i32_fallback: out.is_known(K_I32),
        i32_arith: out.is_known(K_I32_ARITH),
        empty_list: out.is_known(K_EMPTY_LIST),
    };

    // ---------------- replay
    if let Some(path) = &args.replay {
        let text = std::fs::read_to_string(path).unwrap_or_default();
        let v: Value = match serde_json::from_str(&text) {
            Ok(v) => v,
            Err(e) => {
                out.inconclusive(&format!("replay file is not JSON: {e}"));
                std::process::exit(out.finish(&ev));
            }
        };
        // a replay judges the input strictly: known findings are not excluded
        if v["leg"] == "e2e" {
            let stmts: Vec<EStmt> = v["statements"].as_array().map(|a| a.iter().filter_map(EStmt::from_json).collect()).unwrap_or_default();
            if stmts.is_empty() {
                out.inconclusive("replay file has no statements");
                std::process::exit(out.finish(&ev));
            }
            let spaced = v["spaced_double_colon"].as_bool().unwrap_or(false);
            ev.cases(stmts.len() as u64);
            ev.nontrivial(util::hash_str(&render_program(&stmts, spaced)));
            ev.sample(json!({"leg": "e2e", "source": render_program(&stmts, spaced)}));
            let mut farm = Farm::new("c05-replay");
            farm.run_timeout = std::time::Duration::from_secs(180);
            report_e2e_strict(&farm, &stmts, spaced, &mut out, &mut ev);
        } else {
            match Case::from_json(&v) {
                None => out.inconclusive("replay file not understood"),
                Some(c) => {
                    ev.case(Some(util::hash_of(&c)));
                    ev.sample(c.to_json());
                    let (fails, _) = judge_case(&c, KnownOpen::default());
                    for f in &fails {
                        if out.is_known(&f.key) {
                            out.known_replayed(&f.key.clone(), true);
                        }
                    }
                    let fresh: Vec<Fail> = fails.into_iter().filter(|f| !out.is_known(&f.key)).collect();
                    report(&mut out, &mut ev, &c, &fresh);
                }
            }
        }
        std::process::exit(out.finish(&ev));
    }

    // ---------------- known findings: canonical inputs
    let mut farm: Option<Farm> = None;
    replay_known(&mut out, &mut farm);

    // ---------------- regression inputs: canonical inputs of findings that are no longer open (fixed) are judged
    // like any other case; the end-to-end ones join the generated programs below
    let mut regression_programs: Vec<Vec<EStmt>> = Vec::new();
    {
        let dir = vcore::verif_root().join("known").join("C05");
        let mut files: Vec<std::path::PathBuf> = std::fs::read_dir(&dir).map(|rd| rd.flatten().map(|e| e.path()).collect()).unwrap_or_default();
        files.sort();
        for f in files {
            if out.known.open.iter().any(|e| e.replay == f) {
                continue;
            }
            let Ok(v) = serde_json::from_str::<Value>(&std::fs::read_to_string(&f).unwrap_or_default()) else { continue };
            ev.class("regression-input");
            if v["leg"] == "e2e" {
                let stmts: Vec<EStmt> = v["statements"].as_array().map(|a| a.iter().filter_map(EStmt::from_json).collect()).unwrap_or_default();
                if !stmts.is_empty() && !stmts.iter().any(|s| s.known_construct(known).is_some() || (known.i32_arith && s.has_i32_arith_construct()) || (known.empty_list && s.has_empty_list_construct())) {
                    regression_programs.push(stmts);
                }
            } else if let Some(c) = Case::from_json(&v) {
                ev.case(Some(util::hash_of(&c)));
                let (fails, _) = judge_case(&c, known);
                report(&mut out, &mut ev, &c, &fails);
            }
        }
    }

    // ---------------- leg 1: in-process
    let t_inproc = std::time::Instant::now(); // evidence only, never a verdict
    let n_cases: usize = args.tier.pick(300_000, 6_000_000);
    let chunk = 50_000usize;
    let xcheck_want: usize = args.tier.pick(0, 200_000);
    let mut xcheck: Vec<Case> = Vec::new();
    let n_chunks = n_cases.div_ceil(chunk);
    // Chunks are generated, judged and (on failure) shrunk on worker threads, each from its own seeded runner, and
    // merged in chunk order, so the run stays a pure function of the seed.
    struct ChunkOut {
        cases: Vec<Case>,
        results: Vec<(Vec<Fail>, Vec<&'static str>)>,
        shrunk: Vec<(String, Case)>,
    }
    let run_chunk = |c: usize| -> ChunkOut {
        let n = chunk.min(n_cases - c * chunk);
        let strat = case_s();
        let mut runner = vcore::gen::runner(args.subseed(500 + c as u64));
        let mut trees = vcore::gen::batch(&strat, &mut runner, n);
        let cases: Vec<Case> = trees.iter().map(|t| t.current()).collect();
        let results: Vec<(Vec<Fail>, Vec<&'static str>)> = cases.iter().map(|c| judge_case(c, known)).collect();
        let mut shrunk = Vec::new();
        let mut keys = std::collections::BTreeSet::new();
        for (i, (fails, _)) in results.iter().enumerate() {
            if let Some(first) = fails.first() {
                if keys.len() < 6 && keys.insert(first.key.clone()) {
                    let key = first.key.clone();
                    let small = vcore::gen::shrink(&mut trees[i], 400, |v: &Case| judge_case(v, known).0.iter().any(|f| f.key == key));
                    shrunk.push((key, small));
                }
            }
        }
        ChunkOut { cases, results, shrunk }
    };
    let group = 8usize;
    for g in (0..n_chunks).step_by(group) {
        let idx: Vec<usize> = (g..(g + group).min(n_chunks)).collect();
        let outs: Vec<ChunkOut> = idx.par_iter().map(|c| run_chunk(*c)).collect();
        for (c, co) in idx.iter().zip(outs) {
            for (i, (case, (fails, excluded))) in co.cases.iter().zip(co.results.iter()).enumerate() {
                ev.case(if nontrivial(case) { Some(util::hash_of(case)) } else { None });
                if *c < 20 {
                    classes_of(case, &mut ev);
                }
                for k in excluded {
                    ev.exclude(k);
                }
                if xcheck.len() < xcheck_want {
                    xcheck.push(case.clone());
                }
                if *c == 0 && i % 7919 == 11 {
                    ev.sample(json!({"leg": "in-process", "case": case.to_json()}));
                }
                if !fails.is_empty() {
                    ev.violations += 1;
                }
            }
            for (key, small) in &co.shrunk {
                if out.seen(key) {
                    continue;
                }
                let (f2, _) = judge_case(small, known);
                report(&mut out, &mut ev, small, &f2);
            }
        }
    }
    ev.set("wall_s_in_process_leg", json!(t_inproc.elapsed().as_secs_f64()));
    ev.set("class_histogram_scope", json!("generator classes are counted on the first 1000000 in-process cases"));

    // ---------------- leg 3: CPython cross-check of the model
    if xcheck_want > 0 {
        let work = vcore::verif_root().join("work").join("c05-xcheck");
        match cpython_crosscheck(&xcheck, &work) {
            Ok(n) => ev.set("cpython_crosscheck_cases", json!(n)),
            Err(e) => out.inconclusive(&format!("oracle cross-check: {e}")),
        }
        let _ = std::fs::remove_dir_all(&work);
    }

    // ---------------- leg 2: end to end
    let n_value_programs: usize = args.tier.pick(1, 24);
    let n_error_programs: usize = args.tier.pick(2, 21);
    let stmts_per_program: usize = args.tier.pick(70, 90);
    let mut runner = vcore::gen::runner(args.subseed(909));
    let st = estmt_s();
    let mut programs: Vec<Vec<EStmt>> = Vec::new();
    let gen_values = |runner: &mut proptest::test_runner::TestRunner, ev: &mut Evidence, n: usize| -> Vec<EStmt> {
        let mut v = Vec::new();
        let mut tries = 0;
        while v.len() < n && tries < n * 20 {
            tries += 1;
            let Some(mut s) = vcore::gen::one(&st, runner) else { break };
            if known.i32_fallback && s.avoid_i32_fallback() {
                ev.exclude(K_I32);
            }
            if known.i32_arith && s.avoid_i32_arith() {
                ev.exclude(K_I32_ARITH);
            }
            if known.empty_list && s.avoid_empty_list() {
                ev.exclude(K_EMPTY_LIST);
            }
            if let Some(k) = s.known_construct(known) {
                ev.exclude(k);
                continue;
            }
            if matches!(s.expect(), Expect::Error(_)) {
                ev.discard("e2e value statement that would raise (error statements are generated separately)");
                continue;
            }
            v.push(s);
        }
        v
    };
    for _ in 0..n_value_programs {
        programs.push(gen_values(&mut runner, &mut ev, stmts_per_program));
    }
    let rot = (args.seed as usize).wrapping_mul(n_error_programs) % N_ERROR_KINDS;
    for z in 0..n_error_programs {
        let mut stmts = gen_values(&mut runner, &mut ev, 4);
        let mut e = error_stmt(rot + z, &mut runner);
        if known.i32_fallback && e.avoid_i32_fallback() {
            ev.exclude(K_I32);
        }
        if known.i32_arith && e.avoid_i32_arith() {
            ev.exclude(K_I32_ARITH);
        }
        if known.empty_list && e.avoid_empty_list() {
            // an index into the 1-element list must stay out of range
            if let EStmt::Index { i, .. } = &mut e {
                i.value = if i.value < 0 { i.value.saturating_sub(1) } else { i.value.saturating_add(1) };
            }
            ev.exclude(K_EMPTY_LIST);
        }
        ev.class(&format!("e2e-error:{}", e.shape()));
        stmts.push(e);
        programs.push(stmts);
    }
    let n_generated = programs.len();
    programs.extend(regression_programs);
    let spaced = known.parse_cc;
    for p in &programs {
        for s in p {
            let text = s.render(0, false);
            ev.case(if nontrivial(&s.as_case()) { Some(util::hash_str(&text) ^ 0xE2E) } else { None });
            ev.class(&format!("e2e:{}", s.shape()));
            if spaced && s.has_double_colon() {
                ev.exclude(K_PARSE_CC);
            }
        }
    }
    if let Some(p0) = programs.first() {
        ev.sample(json!({"leg": "e2e", "first_statements_of_program_0": util::truncate(&render_program(&p0[..p0.len().min(5)], spaced), 1200)}));
    }
    if let Some(pz) = programs[..n_generated].last() {
        ev.sample(json!({"leg": "e2e-error", "program": util::truncate(&render_program(pz, spaced), 1500), "expected_error": format!("{:?}", pz.last().map(|s| s.expect()))}));
    }
    let farm = farm.unwrap_or_else(|| {
        let mut f = Farm::new("c05");
        f.run_timeout = std::time::Duration::from_secs(180);
        f
    });
    if let Ok(dir) = std::env::var("C05_DUMP_DIR") {
        let _ = std::fs::create_dir_all(&dir);
        for (i, p) in programs.iter().enumerate() {
            let _ = std::fs::write(format!("{dir}/c05p{i}.incn"), render_program(p, spaced));
        }
    }
    let t_e2e = std::time::Instant::now();
    run_programs(&farm, &programs, spaced, &mut out, &mut ev);
    ev.set("wall_s_e2e_leg", json!(t_e2e.elapsed().as_secs_f64()));
    ev.set("e2e_programs", json!(programs.len()));
    ev.set("e2e_statements", json!(programs.iter().map(|p| p.len()).sum::<usize>()));
    ev.set("in_process_cases", json!(n_cases));
    ev.set("double_colon_written_with_space", json!(spaced));
    std::process::exit(out.finish(&ev));
}

/// Replay of an e2e input: known findings are reported as KNOWN-FINDING, everything else as a violation.
fn report_e2e_strict(farm: &Farm, stmts: &[EStmt], spaced: bool, out: &mut Outcome, ev: &mut Evidence) {
    let o = farm.run_many(&[Project::single("c05replay", &render_program(stmts, spaced))], Mode::BuildRun);
    match judge_program(stmts, &o[0]) {
        Err(e) => out.inconclusive(&format!("farm: {e}")),
        Ok(fails) => {
            for (_, f) in fails {
                if out.is_known(&f.key) {
                    out.known_replayed(&f.key, true);
                    continue;
                }
                let body = serde_json::to_string_pretty(&program_json(stmts, spaced)).unwrap();
                out.violation(ev, &f.key, "json", &body, &format!("{}\n--- program ---\n{}", f.what, util::truncate(&render_program(stmts, spaced), 2500)));
            }
        }
    }
}
