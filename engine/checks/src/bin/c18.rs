//! C18 — the language server always converges to the latest document text.
//!
//! The harness owns the schedule: `LspService::new(IncanLanguageServer::new)` is driven without a runtime, one
//! future per notification (`service.call(req)`), polled by hand with a no-op waker. Handlers of this server
//! yield at `RwLock` acquisition under contention and inside `client.publish_diagnostics(..).await` when the
//! 1-slot client channel already holds an undrained message; the harness decides when one message is drained from
//! the `ClientSocket`. A generated case is (history, schedule):
//!
//! * history: 2–10 didOpen/didChange/didClose over 1–2 URIs, protocol-valid per URI (open, changes, close,
//!   reopen ..), versions strictly increasing; text of version n starts with `const V<n>: int = <n>` (padded so
//!   that the declaration's end column is unique per version), imports one or two real dependency files (one
//!   publish = one possible yield per dependency, before the store), may contain 0–2 unique semantic errors
//!   `undefined_<n>a/b`, or a syntax / lexical error;
//! * schedule, executor `free`: actions {start next notification (with its first poll, as `buffer_unordered(4)`
//!   does, allowed while < 4 are in flight), poll in-flight #k, drain one client message}; afterwards everything
//!   is run to quiescence by round-robin polling and draining. Every interleaving at await points is reachable.
//! * schedule, executor `serve loop`: a model of tower-lsp's `Server::serve` task — real wakers, a FIFO ready
//!   queue as in `FuturesUnordered`; one action is one turn {drain k client messages, accept j notifications, poll
//!   every woken handler in wake order until none is ready}. A failure found here is reachable in the shipped
//!   binary given suitable client timing (burst arrival, slow reading of stdout).
//!
//! Oracle at quiescence (per URI): closed ⇒ hover/definition answer nothing and completion offers no `V*`;
//! open ⇒ hover at (0,6), definition and completion all answer from `V<max>`; every publishDiagnostics carrying
//! a version mentions exactly the markers of that version's text, and one exists for `max`; every handler
//! future completes (else exit 2).
//!
//! History: the three defects this check found (`stale-overwrite:newer-change`, `stale-overwrite:after-close`,
//! `stale-kept:syntax-error`) were fixed in /repo commit dcfca60; their canonical inputs in `known/C18/*.json` are
//! replayed as regression cases at the start of every run and judged like any generated case. No signature is
//! tolerated after the fact. Should an `open:` line for `stale-kept:syntax-error` ever be recorded again, the
//! generator switches that construct off by construction (latest text of an open document never broken) and counts
//! it; schedule-dependent signatures cannot be avoided by construction and are always reported.

use futures::future::BoxFuture;
use futures::stream::StreamExt;
use futures::task::noop_waker;
use incan::lsp::IncanLanguageServer;
use proptest::prelude::*;
use proptest::strategy::ValueTree;
use rayon::prelude::*;
use serde_json::{json, Value};
use futures::task::{waker_ref, ArcWake};
use std::collections::{BTreeMap, BTreeSet, VecDeque};
use std::path::{Path, PathBuf};
use std::sync::atomic::{AtomicBool, Ordering};
use std::sync::{Arc, Mutex};
use std::task::{Context, Poll};
use tower_lsp::jsonrpc::{Request, Response};
use tower_lsp::{ClientSocket, ExitedError, LspService};
use tower_service::Service;
use vcore::{util, Args, Evidence, Outcome};

const MAX_IN_FLIGHT: usize = 4; // tower-lsp transport.rs: buffer_unordered(max_concurrency = 4)
const POLL_BOUND: u32 = 10_000;

// ------------------------------------------------------------------------------------------------ case model

#[derive(Clone, Copy, Debug, PartialEq, Eq, Hash)]
enum Kind {
    Open,
    Change,
    Close,
}

#[derive(Clone, Copy, Debug, PartialEq, Eq, Hash)]
enum Broken {
    No,
    Syntax,
    Lex,
}

#[derive(Clone, Debug, PartialEq, Eq, Hash)]
struct Op {
    uri: usize,
    kind: Kind,
    /// text id = 1-based position in the history: unique, names the text (`V<id>`, `undefined_<id>a`)
    version: i32,
    /// the version number sent to the server: increasing inside an open session, but a reopen after a close may
    /// reuse the last number, restart at 1, go lower or higher (clients restart numbering when a file is reopened)
    lsp_version: i32,
    markers: u8,
    broken: Broken,
    /// number of dependency files the text imports (1 or 2): one publish, i.e. one possible yield, per dependency
    deps: u8,
    /// other documents of the case this text imports (copy of `Case::imports[uri]`): those files exist on disk AND are
    /// opened/changed/closed in the editor by the history, so the importer's analysis reads their in-memory text and
    /// publishes diagnostics for them
    imports: Vec<usize>,
}

/// How handlers get polled.
#[derive(Clone, Copy, Debug, PartialEq, Eq, Hash)]
enum Exec {
    /// any in-flight handler may be polled at any time (all interleavings at await points)
    Free,
    /// model of tower-lsp's `Server::serve` loop: real wakers, FIFO ready queue as in `FuturesUnordered`; one
    /// action = one turn of the loop: drain k client messages, accept j new notifications, then poll every woken
    /// handler in wake order until none is ready
    Loop,
}

#[derive(Clone, Copy, Debug, PartialEq, Eq, Hash)]
enum Act {
    /// start the next notification of the history (includes its first poll)
    Start,
    /// poll the in-flight handler in slot `idx(raw, in_flight)` (generated form)
    PollSlot(u16),
    /// poll the handler of history entry i, if it is in flight (replay / effective form)
    PollOp(usize),
    /// take one message from the client socket
    Drain,
    /// (Loop executor, replay / effective form) one turn: drain k messages, accept j notifications, run the ready queue
    Cycle(u8, u8),
}

#[derive(Clone, Debug)]
struct Case {
    n_uris: usize,
    exec: Exec,
    /// imports[u] = documents of the case imported by every text of document u (acyclic: only higher indices)
    imports: Vec<Vec<usize>>,
    ops: Vec<Op>,
    sched: Vec<Act>,
}

const NAMES: [&str; 8] = ["a", "b", "c", "d", "e", "f", "g", "h"];

/// Import topologies over up to 3 documents (0 = independent documents).
fn topology(t: u8, n_uris: usize) -> Vec<Vec<usize>> {
    let mut im = vec![Vec::new(); n_uris];
    match (n_uris, t % 6) {
        (2, 1..=5) => im[0] = vec![1],
        (3, 1) => im[0] = vec![1],
        (3, 2) => im[0] = vec![1, 2],
        (3, 3) => {
            im[0] = vec![1];
            im[1] = vec![2];
        }
        (3, 4) => {
            im[0] = vec![2];
            im[1] = vec![2];
        }
        (3, 5) => {
            im[0] = vec![1, 2];
            im[1] = vec![2];
        }
        _ => {}
    }
    im
}

impl Case {
    /// documents reachable from u through imports (u excluded)
    fn reach(&self, u: usize) -> BTreeSet<usize> {
        let mut seen = BTreeSet::new();
        let mut stack: Vec<usize> = self.imports.get(u).cloned().unwrap_or_default();
        while let Some(x) = stack.pop() {
            if seen.insert(x) {
                stack.extend(self.imports.get(x).cloned().unwrap_or_default());
            }
        }
        seen
    }
    /// is u imported (transitively) by another document of the case?
    fn imported(&self, u: usize) -> bool {
        (0..self.n_uris).any(|w| w != u && self.reach(w).contains(&u))
    }
}

/// On-disk content of the document files (needed so that imports of them resolve; the editor versions replace it
/// while the document is open).
fn disk_text(u: usize) -> String {
    format!("pub def helper_{}() -> int:\n    return 0\n", NAMES[u])
}

fn marker_names(op: &Op) -> Vec<String> {
    ["a", "b"].iter().take(op.markers as usize).map(|s| format!("undefined_{}{}", op.version, s)).collect()
}

/// Text of a version. Line 0 identifies the version to hover (name), completion (label) and definition (the
/// declaration's end column is unique: 4 extra columns per version).
fn text_of(op: &Op) -> String {
    let n = op.version;
    let mut s = format!("const V{n}: int = {n}{}\n", " + 0".repeat(n as usize));
    // import order decides the order in which the server reports on the dependencies (last import first): with one
    // disk dependency the open documents are imported first (reported after `dep`), with two they sit in between
    if op.deps >= 2 {
        s.push_str("from dep import helper\n");
    }
    for j in &op.imports {
        s.push_str(&format!("from doc_{0} import helper_{0}\n", NAMES[*j]));
    }
    if op.deps >= 2 {
        s.push_str("from dep2 import helper2\n");
    } else {
        s.push_str("from dep import helper\n");
    }
    s.push('\n');
    for m in marker_names(op) {
        s.push_str(&format!("def f_{m}() -> int:\n    return {m}\n\n"));
    }
    s.push_str(&format!("pub def helper_{}() -> int:\n    return {n}\n\n", NAMES[op.uri]));
    let extra: String = op.imports.iter().map(|j| format!(" + helper_{}()", NAMES[*j])).collect();
    s.push_str(&format!("def g{n}() -> int:\n    return helper() + V{n}{extra}\n"));
    match op.broken {
        Broken::No => {}
        Broken::Syntax => s.push_str("\ndef broken(:\n    return 1\n"),
        Broken::Lex => s.push_str("\nconst S: str = \"unterminated\n"),
    }
    s
}

fn line0_len(op: &Op) -> u32 {
    text_of(op).lines().next().map(|l| l.chars().count() as u32).unwrap_or(0)
}

const DEP_SOURCE: &str = "pub def helper() -> int:\n    return 1\n";
const DEP2_SOURCE: &str = "pub def helper2() -> int:\n    return 2\n";

fn case_to_json(c: &Case) -> Value {
    json!({
        "uris": c.n_uris,
        "imports": c.imports,
        "executor": match c.exec { Exec::Free => "free", Exec::Loop => "loop" },
        "history": c.ops.iter().map(|o| json!({
            "uri": o.uri,
            "op": match o.kind { Kind::Open => "open", Kind::Change => "change", Kind::Close => "close" },
            "version": o.version,
            "lsp_version": o.lsp_version,
            "markers": o.markers,
            "broken": match o.broken { Broken::No => "no", Broken::Syntax => "syntax", Broken::Lex => "lex" },
            "deps": o.deps,
        })).collect::<Vec<_>>(),
        "schedule": c.sched.iter().map(|a| match a {
            Act::Start => "start".to_string(),
            Act::PollSlot(r) => format!("pollslot:{r}"),
            Act::PollOp(i) => format!("poll:{i}"),
            Act::Drain => "drain".to_string(),
            Act::Cycle(k, j) => format!("cycle:{k}:{j}"),
        }).collect::<Vec<_>>(),
    })
}

fn case_from_json(v: &Value) -> Option<Case> {
    let n_uris = v["uris"].as_u64()? as usize;
    let mut ops = Vec::new();
    for o in v["history"].as_array()? {
        ops.push(Op {
            uri: o["uri"].as_u64()? as usize,
            kind: match o["op"].as_str()? {
                "open" => Kind::Open,
                "change" => Kind::Change,
                "close" => Kind::Close,
                _ => return None,
            },
            version: o["version"].as_i64()? as i32,
            lsp_version: o["lsp_version"].as_i64().or(o["version"].as_i64())? as i32,
            markers: o["markers"].as_u64().unwrap_or(0) as u8,
            broken: match o["broken"].as_str().unwrap_or("no") {
                "syntax" => Broken::Syntax,
                "lex" => Broken::Lex,
                _ => Broken::No,
            },
            deps: o["deps"].as_u64().unwrap_or(1).clamp(1, 2) as u8,
            imports: Vec::new(),
        });
    }
    let mut sched = Vec::new();
    for a in v["schedule"].as_array()? {
        let a = a.as_str()?;
        sched.push(if a == "start" {
            Act::Start
        } else if a == "drain" {
            Act::Drain
        } else if let Some(r) = a.strip_prefix("pollslot:") {
            Act::PollSlot(r.parse().ok()?)
        } else if let Some(i) = a.strip_prefix("poll:") {
            Act::PollOp(i.parse().ok()?)
        } else if let Some(kj) = a.strip_prefix("cycle:") {
            let (k, j) = kj.split_once(':')?;
            Act::Cycle(k.parse().ok()?, j.parse().ok()?)
        } else {
            return None;
        });
    }
    if n_uris == 0 || n_uris > 8 || ops.iter().any(|o| o.uri >= n_uris) {
        return None;
    }
    let exec = if v["executor"].as_str() == Some("loop") { Exec::Loop } else { Exec::Free };
    let mut imports: Vec<Vec<usize>> = vec![Vec::new(); n_uris];
    if let Some(a) = v["imports"].as_array() {
        for (u, l) in a.iter().enumerate().take(n_uris) {
            for j in l.as_array().cloned().unwrap_or_default() {
                let j = j.as_u64()? as usize;
                if j <= u || j >= n_uris {
                    return None; // acyclic by construction: only higher indices
                }
                imports[u].push(j);
            }
        }
    }
    for o in ops.iter_mut() {
        o.imports = imports[o.uri].clone();
    }
    Some(Case { n_uris, exec, imports, ops, sched })
}

// ------------------------------------------------------------------------------------------------ generator

/// Build a protocol-valid history from raw material (construction, not rejection): the first notification for a
/// URI is an open, an open document is changed or closed, a closed one is reopened; versions are the 1-based
/// position in the history, hence strictly increasing (globally and per URI).
fn build_case(n_uris: usize, topo: u8, free: bool, raw_ops: Vec<(u8, u8, u8)>, raw_sched: Vec<(u8, u16)>, allow_broken_latest: bool) -> (Case, u64) {
    let imports = topology(topo, n_uris);
    let is_dep: Vec<bool> = (0..n_uris).map(|u| imports.iter().any(|l| l.contains(&u))).collect();
    let mut open = vec![false; n_uris];
    let mut last_lsp: Vec<Option<i32>> = vec![None; n_uris];
    let mut ops: Vec<Op> = Vec::new();
    for (i, (u, k, t)) in raw_ops.iter().enumerate() {
        let uri = (*u as usize) % n_uris;
        let kind = if !open[uri] {
            Kind::Open
        } else if *k >= 200 {
            Kind::Close
        } else {
            Kind::Change
        };
        open[uri] = kind != Kind::Close;
        let (markers, broken) = if kind == Kind::Close {
            (0, Broken::No)
        } else {
            let markers = match t % 8 {
                0..=2 => 0,
                3..=5 => 1,
                _ => 2,
            };
            // texts of documents that others import flip their lex/parse status more often (a dependency's parse
            // status is what importers report about it)
            let broken = match (t / 8, is_dep[uri]) {
                (0..=28, false) | (0..=21, true) => Broken::No,
                (29..=30, false) | (22..=28, true) => Broken::Syntax,
                _ => Broken::Lex,
            };
            // a broken text carries no semantic markers (analysis stops before the type checker)
            (if broken == Broken::No { markers } else { 0 }, broken)
        };
        let deps = if kind != Kind::Close && *k % 4 == 3 { 2 } else { 1 };
        // version numbers on the wire: a change increments; an open draws from {text id (fresh, higher than anything
        // before), same as the last number used for this URI, 1, lower}. The invariant lsp_version <= text id keeps
        // "text id" strictly higher than every number used before.
        let tid = i as i32 + 1;
        let lsp_version = match (kind, last_lsp[uri]) {
            (Kind::Close, l) => l.unwrap_or(tid),
            (Kind::Change, Some(l)) => l + 1,
            (Kind::Change, None) => tid,
            (Kind::Open, None) => {
                if (*k / 4) % 4 == 2 {
                    1
                } else {
                    tid
                }
            }
            (Kind::Open, Some(l)) => match (*k / 4) % 4 {
                0 => tid,
                1 => l,
                2 => 1,
                _ => (l - 1).max(1),
            },
        };
        if kind != Kind::Close {
            last_lsp[uri] = Some(lsp_version);
        }
        ops.push(Op { uri, kind, version: tid, lsp_version, markers, broken, deps, imports: imports[uri].clone() });
    }
    // known finding `stale-kept:syntax-error` switches the construct off: the latest text of an open document is
    // never broken
    let mut excluded = 0u64;
    if !allow_broken_latest {
        for u in 0..n_uris {
            if let Some(last) = ops.iter().rposition(|o| o.uri == u) {
                if ops[last].kind != Kind::Close && ops[last].broken != Broken::No {
                    ops[last].broken = Broken::No;
                    excluded += 1;
                }
            }
        }
    }
    let sched = raw_sched
        .iter()
        .map(|(k, r)| match k {
            0..=2 => Act::Start,
            3..=6 => Act::PollSlot(*r),
            _ => Act::Drain,
        })
        .collect();
    (Case { n_uris, exec: if free { Exec::Free } else { Exec::Loop }, imports, ops, sched }, excluded)
}

fn case_strategy(allow_broken_latest: bool, force: Option<Exec>) -> impl Strategy<Value = (Case, u64)> {
    (
        1usize..=3,
        0u8..6,
        any::<bool>(),
        proptest::collection::vec((any::<u8>(), any::<u8>(), any::<u8>()), 2..=10),
        proptest::collection::vec((0u8..10, any::<u16>()), 0..=40),
    )
        .prop_map(move |(n, topo, free, ops, sched)| {
            let free = match force {
                Some(Exec::Free) => true,
                Some(Exec::Loop) => false,
                None => free,
            };
            build_case(n, topo, free, ops, sched, allow_broken_latest)
        })
}

// ------------------------------------------------------------------------------------------------ executor

#[derive(Clone, Debug)]
struct Msg {
    method: String,
    uri: Option<usize>,
    other_uri: bool,
    version: Option<i64>,
    markers: BTreeSet<String>,
    n_diags: usize,
    /// diagnostics whose message mentions no marker (lex/parse errors, "Failed to parse dependency ..", ..)
    n_unmarked: usize,
}

#[derive(Clone, Debug, Default)]
struct Probe {
    hover: Option<String>,       // raw hover markdown
    hover_v: Option<i32>,        // version named by hover
    def: Option<(u32, u32, u32, u32)>,
    def_uri_ok: bool,
    completion_v: Vec<i32>,      // V<n> labels offered
    completion_null: bool,
    errors: Vec<String>,
}

#[derive(Clone, Debug, Default)]
struct Run {
    msgs: Vec<Msg>,
    /// history index -> position in completion order
    completed: Vec<usize>,
    /// a handler completed while an older handler for the same URI was still in flight
    overtakes: u32,
    /// a handler for a document completed while an older handler of a document that imports it was still in flight
    dep_overtakes: u32,
    max_in_flight: usize,
    polls: u32,
    hung: bool,
    panic: Option<String>,
    setup_error: Option<String>,
    probes: Vec<Probe>,
    effective: Vec<Act>,
    /// every action executed, including the quiescence phase (a self-contained schedule)
    full: Vec<Act>,
    trace: Vec<String>,
}

type Fut = BoxFuture<'static, Result<Option<Response>, ExitedError>>;

struct Harness {
    service: LspService<IncanLanguageServer>,
    socket: ClientSocket,
    dir: PathBuf,
    n_uris: usize,
    want_trace: bool,
}

fn uri_of(dir: &Path, u: usize) -> String {
    let name = NAMES[u];
    tower_lsp::lsp_types::Url::from_file_path(dir.join(format!("doc_{name}.incn"))).map(|u| u.to_string()).unwrap_or_default()
}

fn poll_once(f: &mut Fut) -> Poll<Result<Option<Response>, ExitedError>> {
    let w = noop_waker();
    let mut cx = Context::from_waker(&w);
    f.as_mut().poll(&mut cx)
}

fn scan_markers(s: &str, out: &mut BTreeSet<String>) {
    let pat = "undefined_";
    let mut rest = s;
    while let Some(i) = rest.find(pat) {
        let tail = &rest[i + pat.len()..];
        let digits: String = tail.chars().take_while(|c| c.is_ascii_digit()).collect();
        let after = &tail[digits.len()..];
        let letter: String = after.chars().take_while(|c| *c == 'a' || *c == 'b').take(1).collect();
        if !digits.is_empty() {
            out.insert(format!("{pat}{digits}{letter}"));
        }
        rest = &tail[digits.len()..];
    }
}

impl Harness {
    fn new(dir: &Path, n_uris: usize, want_trace: bool) -> Harness {
        let (service, socket) = LspService::new(IncanLanguageServer::new);
        Harness { service, socket, dir: dir.to_path_buf(), n_uris, want_trace }
    }

    fn request_for(&self, op: &Op) -> Request {
        let uri = uri_of(&self.dir, op.uri);
        match op.kind {
            Kind::Open => Request::build("textDocument/didOpen")
                .params(json!({"textDocument": {"uri": uri, "languageId": "incan", "version": op.lsp_version, "text": text_of(op)}}))
                .finish(),
            Kind::Change => Request::build("textDocument/didChange")
                .params(json!({"textDocument": {"uri": uri, "version": op.lsp_version}, "contentChanges": [{"text": text_of(op)}]}))
                .finish(),
            Kind::Close => Request::build("textDocument/didClose").params(json!({"textDocument": {"uri": uri}})).finish(),
        }
    }

    fn drain_one(&mut self) -> Option<Msg> {
        let w = noop_waker();
        let mut cx = Context::from_waker(&w);
        match self.socket.poll_next_unpin(&mut cx) {
            Poll::Ready(Some(req)) => {
                let method = req.method().to_string();
                let mut m = Msg { method, uri: None, other_uri: false, version: None, markers: BTreeSet::new(), n_diags: 0, n_unmarked: 0 };
                if m.method == "textDocument/publishDiagnostics" {
                    if let Some(p) = req.params() {
                        let u = p["uri"].as_str().unwrap_or("");
                        m.uri = (0..self.n_uris).find(|k| uri_of(&self.dir, *k) == u);
                        m.other_uri = m.uri.is_none();
                        m.version = p["version"].as_i64();
                        if let Some(ds) = p["diagnostics"].as_array() {
                            m.n_diags = ds.len();
                            for d in ds {
                                let before = m.markers.len();
                                let mut own = BTreeSet::new();
                                scan_markers(d["message"].as_str().unwrap_or(""), &mut own);
                                if own.is_empty() {
                                    m.n_unmarked += 1;
                                }
                                m.markers.extend(own);
                                let _ = before;
                            }
                        }
                    }
                }
                Some(m)
            }
            _ => None,
        }
    }

    /// Run a request to completion (used for initialize and the probes), draining the socket as needed.
    fn complete(&mut self, req: Request, run: &mut Run) -> Result<Option<Response>, String> {
        let mut f: Fut = self.service.call(req);
        for _ in 0..1000 {
            match poll_once(&mut f) {
                Poll::Ready(Ok(r)) => return Ok(r),
                Poll::Ready(Err(_)) => return Err("service exited".into()),
                Poll::Pending => {
                    if let Some(m) = self.drain_one() {
                        run.msgs.push(m);
                    }
                }
            }
        }
        Err("request did not complete in 1000 polls".into())
    }
}

fn describe(m: &Msg) -> String {
    if m.method == "textDocument/publishDiagnostics" {
        format!(
            "publishDiagnostics uri={} version={:?} diags={} unmarked={} markers={:?}",
            m.uri.map(|u| u.to_string()).unwrap_or_else(|| "dep".into()),
            m.version,
            m.n_diags,
            m.n_unmarked,
            m.markers
        )
    } else {
        m.method.clone()
    }
}

fn execute(case: &Case, dir: &Path, want_trace: bool) -> Run {
    let mut run = Run::default();
    let r = util::catch(|| execute_inner(case, dir, want_trace, &mut run));
    if let Err(p) = r {
        run.panic = Some(p);
    }
    run
}

/// Waker of the Loop executor: enqueues the handler id once (like a `FuturesUnordered` task).
struct IdWaker {
    id: usize,
    queued: AtomicBool,
    ready: Arc<Mutex<VecDeque<usize>>>,
}

impl ArcWake for IdWaker {
    fn wake_by_ref(a: &Arc<Self>) {
        if !a.queued.swap(true, Ordering::SeqCst) {
            if let Ok(mut q) = a.ready.lock() {
                q.push_back(a.id);
            }
        }
    }
}

struct Flight {
    id: usize,
    fut: Fut,
    waker: Arc<IdWaker>,
}

fn execute_inner(case: &Case, dir: &Path, want_trace: bool, run: &mut Run) {
    let mut h = Harness::new(dir, case.n_uris, want_trace);
    // handshake. The `initialized` handler logs one message; it stays in the client channel until drained.
    match h.complete(Request::build("initialize").id(1).params(json!({"capabilities": {}})).finish(), run) {
        Ok(Some(r)) if r.is_ok() => {}
        other => {
            run.setup_error = Some(format!("initialize: {other:?}"));
            return;
        }
    }
    if let Err(e) = h.complete(Request::build("initialized").params(json!({})).finish(), run) {
        run.setup_error = Some(format!("initialized: {e}"));
        return;
    }

    let n = case.ops.len();
    let looped = case.exec == Exec::Loop;
    let mut next = 0usize;
    let mut in_flight: Vec<Flight> = Vec::new();
    let ready: Arc<Mutex<VecDeque<usize>>> = Arc::new(Mutex::new(VecDeque::new()));
    run.completed = vec![usize::MAX; n];
    let mut n_completed = 0usize;

    // one step of a handler; returns true if it completed
    macro_rules! step {
        ($slot:expr) => {{
            let slot: usize = $slot;
            run.polls += 1;
            let id = in_flight[slot].id;
            if !looped {
                run.full.push(Act::PollOp(id));
            }
            let res = if looped {
                // as FuturesUnordered: clear the flag before polling so that a wake during the poll re-enqueues
                in_flight[slot].waker.queued.store(false, Ordering::SeqCst);
                let wk = in_flight[slot].waker.clone();
                let w = waker_ref(&wk);
                let mut cx = Context::from_waker(&w);
                in_flight[slot].fut.as_mut().poll(&mut cx)
            } else {
                poll_once(&mut in_flight[slot].fut)
            };
            match res {
                Poll::Ready(res) => {
                    drop(in_flight.remove(slot));
                    run.completed[id] = n_completed;
                    n_completed += 1;
                    if in_flight.iter().any(|f| f.id < id && case.ops[f.id].uri == case.ops[id].uri) {
                        run.overtakes += 1;
                    }
                    if in_flight.iter().any(|f| f.id < id && case.reach(case.ops[f.id].uri).contains(&case.ops[id].uri)) {
                        run.dep_overtakes += 1;
                    }
                    if h.want_trace {
                        run.trace.push(format!("  #{id} completed{}", if res.is_err() { " (service exited)" } else { "" }));
                    }
                    true
                }
                Poll::Pending => false,
            }
        }};
    }
    // create the handler future of the next notification; Free: first poll now; Loop: enqueued at the tail of the
    // ready queue (first polls happen in arrival order in both)
    macro_rules! start {
        () => {{
            let id = next;
            next += 1;
            if !looped {
                run.full.push(Act::Start);
            }
            let fut: Fut = h.service.call(h.request_for(&case.ops[id]));
            let waker = Arc::new(IdWaker { id, queued: AtomicBool::new(false), ready: ready.clone() });
            in_flight.push(Flight { id, fut, waker });
            run.max_in_flight = run.max_in_flight.max(in_flight.len());
            if h.want_trace {
                run.trace.push(format!(
                    "start #{id} {:?} uri={} text {} sent as version {}{}",
                    case.ops[id].kind,
                    case.ops[id].uri,
                    case.ops[id].version,
                    case.ops[id].lsp_version,
                    if case.ops[id].deps > 1 { " (2 deps)" } else { "" }
                ));
            }
            let slot = in_flight.len() - 1;
            if looped {
                ArcWake::wake_by_ref(&in_flight[slot].waker);
            } else {
                let mark = run.full.len();
                step!(slot);
                run.full.remove(mark); // the first poll is part of `start`
            }
        }};
    }
    macro_rules! drain {
        () => {{
            match h.drain_one() {
                Some(m) => {
                    if h.want_trace {
                        run.trace.push(format!("drain: {}", describe(&m)));
                    }
                    run.msgs.push(m);
                    if !looped {
                        run.full.push(Act::Drain);
                    }
                    true
                }
                None => false,
            }
        }};
    }
    // Loop executor: one turn of the serve loop
    macro_rules! cycle {
        ($k:expr, $j:expr) => {{
            let (k, j): (usize, usize) = ($k, $j);
            let mut kd = 0u8;
            for _ in 0..k {
                if drain!() {
                    kd += 1;
                } else {
                    break;
                }
            }
            let mut js = 0u8;
            for _ in 0..j {
                if next < n && in_flight.len() < MAX_IN_FLIGHT {
                    start!();
                    js += 1;
                }
            }
            let mut polled = 0u32;
            loop {
                let head = ready.lock().ok().and_then(|mut q| q.pop_front());
                let Some(id) = head else { break };
                if let Some(slot) = in_flight.iter().position(|f| f.id == id) {
                    if h.want_trace {
                        run.trace.push(format!("poll #{id}"));
                    }
                    step!(slot);
                    polled += 1;
                }
                if run.polls > POLL_BOUND {
                    break;
                }
            }
            if kd > 0 || js > 0 || polled > 0 {
                run.effective.push(Act::Cycle(kd, js));
                run.full.push(Act::Cycle(kd, js));
            }
            (kd, js, polled)
        }};
    }

    for act in &case.sched {
        if run.polls > POLL_BOUND {
            break;
        }
        if looped {
            match *act {
                Act::Start => {
                    cycle!(0, 1);
                }
                Act::Drain => {
                    cycle!(1, 0);
                }
                Act::PollSlot(raw) => {
                    cycle!(1 + (raw % 3) as usize, ((raw / 3) % 3) as usize);
                }
                Act::Cycle(k, j) => {
                    cycle!(k as usize, j as usize);
                }
                Act::PollOp(_) => {}
            }
            continue;
        }
        match *act {
            Act::Start => {
                if next < n && in_flight.len() < MAX_IN_FLIGHT {
                    run.effective.push(Act::Start);
                    start!();
                }
            }
            Act::PollSlot(raw) => {
                if !in_flight.is_empty() {
                    let slot = vcore::gen::idx(raw, in_flight.len());
                    let id = in_flight[slot].id;
                    run.effective.push(Act::PollOp(id));
                    if h.want_trace {
                        run.trace.push(format!("poll #{id}"));
                    }
                    step!(slot);
                }
            }
            Act::PollOp(id) => {
                if let Some(slot) = in_flight.iter().position(|f| f.id == id) {
                    run.effective.push(Act::PollOp(id));
                    if h.want_trace {
                        run.trace.push(format!("poll #{id}"));
                    }
                    step!(slot);
                }
            }
            Act::Drain => {
                if drain!() {
                    run.effective.push(Act::Drain);
                }
            }
            Act::Cycle(..) => {}
        }
    }

    // quiescence: start what is left (in order, as capacity permits), poll everything, drain everything
    if h.want_trace {
        run.trace.push("-- quiescence".into());
    }
    if looped {
        loop {
            if in_flight.is_empty() && next >= n {
                break;
            }
            let (kd, js, polled) = cycle!(usize::MAX, MAX_IN_FLIGHT);
            if run.polls > POLL_BOUND || (kd == 0 && js == 0 && polled == 0) {
                // nothing to drain, nothing to start, nobody woken, handlers still in flight: a lost wake-up
                run.hung = true;
                return;
            }
        }
    } else {
        loop {
            while next < n && in_flight.len() < MAX_IN_FLIGHT {
                start!();
            }
            if in_flight.is_empty() && next >= n {
                break;
            }
            let mut slot = 0;
            while slot < in_flight.len() {
                if h.want_trace {
                    run.trace.push(format!("poll #{}", in_flight[slot].id));
                }
                if !step!(slot) {
                    slot += 1;
                }
            }
            while drain!() {}
            if run.polls > POLL_BOUND {
                run.hung = true;
                return;
            }
        }
    }
    while drain!() {}

    // probes
    for u in 0..case.n_uris {
        let uri = uri_of(dir, u);
        let mut p = Probe::default();
        let pos = json!({"textDocument": {"uri": uri}, "position": {"line": 0, "character": 6}});
        match h.complete(Request::build("textDocument/hover").id(100 + u as i64).params(pos.clone()).finish(), run) {
            Ok(Some(r)) => {
                let (_, body) = r.into_parts();
                match body {
                    Ok(Value::Null) => {}
                    Ok(v) => {
                        let text = v["contents"]["value"].as_str().unwrap_or("").to_string();
                        p.hover_v = parse_v(&text);
                        p.hover = Some(text);
                    }
                    Err(e) => p.errors.push(format!("hover error: {e}")),
                }
            }
            other => p.errors.push(format!("hover: {other:?}")),
        }
        match h.complete(Request::build("textDocument/definition").id(200 + u as i64).params(pos.clone()).finish(), run) {
            Ok(Some(r)) => {
                let (_, body) = r.into_parts();
                match body {
                    Ok(Value::Null) => {}
                    Ok(v) => {
                        let rg = &v["range"];
                        p.def = Some((
                            rg["start"]["line"].as_u64().unwrap_or(u64::MAX) as u32,
                            rg["start"]["character"].as_u64().unwrap_or(u64::MAX) as u32,
                            rg["end"]["line"].as_u64().unwrap_or(u64::MAX) as u32,
                            rg["end"]["character"].as_u64().unwrap_or(u64::MAX) as u32,
                        ));
                        p.def_uri_ok = v["uri"].as_str() == Some(uri.as_str());
                    }
                    Err(e) => p.errors.push(format!("definition error: {e}")),
                }
            }
            other => p.errors.push(format!("definition: {other:?}")),
        }
        match h.complete(Request::build("textDocument/completion").id(300 + u as i64).params(pos).finish(), run) {
            Ok(Some(r)) => {
                let (_, body) = r.into_parts();
                match body {
                    Ok(Value::Null) => p.completion_null = true,
                    Ok(v) => {
                        let items = v.as_array().cloned().or_else(|| v["items"].as_array().cloned()).unwrap_or_default();
                        for it in items {
                            if let Some(l) = it["label"].as_str() {
                                if let Some(d) = l.strip_prefix('V') {
                                    if let Ok(k) = d.parse::<i32>() {
                                        p.completion_v.push(k);
                                    }
                                }
                            }
                        }
                    }
                    Err(e) => p.errors.push(format!("completion error: {e}")),
                }
            }
            other => p.errors.push(format!("completion: {other:?}")),
        }
        if want_trace {
            run.trace.push(format!(
                "probe uri={u}: hover={:?} definition={:?} completion V={:?}{}",
                p.hover_v,
                p.def,
                p.completion_v,
                if p.completion_null { " (null)" } else { "" }
            ));
        }
        run.probes.push(p);
    }
    while let Some(m) = h.drain_one() {
        run.msgs.push(m);
    }
}

fn parse_v(text: &str) -> Option<i32> {
    let i = text.find("const V")?;
    let digits: String = text[i + 7..].chars().take_while(|c| c.is_ascii_digit()).collect();
    digits.parse().ok()
}

// ------------------------------------------------------------------------------------------------ oracle

#[derive(Clone, Debug)]
struct Fail {
    key: String,
    what: String,
}

/// Is `m` a report that can be computed from the text of `op` (a text of document u)? Admissible reports:
/// * the text does not lex/parse: a non-empty list without any marker (the document's own analysis and an
///   importer's analysis both report the lex/parse errors);
/// * the text parses: the full report (exactly its markers; diagnostics without a marker only if a document
///   reachable through its imports has a text that does not parse — "Failed to parse dependency ..", unresolved
///   imported names), or the EMPTY list when the document is imported by another one (an importer's analysis reports
///   the parse status of its open dependencies: "parsed, nothing to report").
/// Anything else — markers of another text, lex/parse errors for a text that parses, an empty list for a text that
/// does not parse — was not computed from this text.
fn admissible(case: &Case, u: usize, op: &Op, m: &Msg) -> Result<(), String> {
    let want: BTreeSet<String> = marker_names(op).into_iter().collect();
    let t = op.version;
    if m.markers.difference(&want).next().is_some() {
        return Err(format!("mentions {:?}, text {t} has {:?}", m.markers, want));
    }
    if op.broken != Broken::No {
        if m.n_diags == 0 {
            return Err(format!("is empty, text {t} has a {:?} error", op.broken));
        }
        return Ok(());
    }
    if m.n_diags == 0 {
        if !want.is_empty() && !case.imported(u) {
            return Err(format!("is empty, text {t} has {:?} (and no other document imports this one)", want));
        }
        return Ok(());
    }
    if m.markers != want {
        return Err(format!("mentions {:?}, text {t} has {:?}", m.markers, want));
    }
    let dep_may_break = case.reach(u).iter().any(|w| case.ops.iter().any(|o| o.uri == *w && o.broken != Broken::No));
    if m.n_unmarked > 0 && !dep_may_break {
        return Err(format!(
            "carries {} diagnostic(s) that mention no marker, but text {t} lexes and parses and nothing it imports is ever broken",
            m.n_unmarked
        ));
    }
    Ok(())
}

/// "Latest text" of a document = the text of its last notification in history order (version numbers on the wire
/// may repeat or go down across close/reopen, so they do not order texts).
fn judge(case: &Case, run: &Run) -> Vec<Fail> {
    let mut fails = Vec::new();
    if let Some(p) = &run.panic {
        fails.push(Fail { key: format!("panic:{}", util::panic_text(p).chars().take(40).collect::<String>()), what: p.clone() });
        return fails;
    }
    for u in 0..case.n_uris {
        let ops_u: Vec<&Op> = case.ops.iter().filter(|o| o.uri == u).collect();
        let Some(probe) = run.probes.get(u) else { continue };
        for e in &probe.errors {
            fails.push(Fail { key: "probe:error-response".into(), what: format!("uri {u}: {e}") });
        }
        // texts of this document by text id
        let texts: BTreeMap<i32, &Op> = ops_u.iter().filter(|o| o.kind != Kind::Close).map(|o| (o.version, *o)).collect();
        let closed = ops_u.last().map(|o| o.kind == Kind::Close).unwrap_or(true);
        let pubs: Vec<&Msg> = run.msgs.iter().filter(|m| m.method == "textDocument/publishDiagnostics" && m.uri == Some(u)).collect();
        let def_text = |d: (u32, u32, u32, u32)| texts.values().find(|o| d == (0, 0, 0, line0_len(o))).map(|o| o.version);
        let served: Option<i32> = probe.hover_v.or(probe.def.and_then(def_text)).or(probe.completion_v.first().copied());

        // ---- which text does the server answer from?
        if closed {
            if probe.hover.is_some() || probe.def.is_some() || !probe.completion_v.is_empty() {
                let key = if served.map(|w| texts.contains_key(&w)).unwrap_or(false) { "stale-overwrite:after-close" } else { "after-close:document-still-served" };
                fails.push(Fail {
                    key: key.into(),
                    what: format!(
                        "uri {u} was closed last, yet hover={:?} definition={:?} completion V={:?} (served text {:?})",
                        probe.hover, probe.def, probe.completion_v, served
                    ),
                });
            }
        } else {
            let latest = *ops_u.last().unwrap();
            let lt = latest.version;
            let older = |w: i32| w != lt && texts.contains_key(&w);
            if latest.broken != Broken::No {
                // the latest text does not parse: nothing can be answered from it; answering from an older text is
                // answering from a text that is not the latest one
                let bad = probe.hover_v.map(|v| v != lt).unwrap_or(false)
                    || probe.def.map(|d| def_text(d) != Some(lt)).unwrap_or(false)
                    || probe.completion_v.iter().any(|v| *v != lt);
                if bad {
                    let key = if served.map(older).unwrap_or(false) { "stale-kept:syntax-error" } else { "wrong-version:broken-latest" };
                    fails.push(Fail {
                        key: key.into(),
                        what: format!(
                            "uri {u}: latest text {lt} (sent as version {}) has a {:?} error, yet hover={:?} definition={:?} completion V={:?}",
                            latest.lsp_version, latest.broken, probe.hover_v, probe.def, probe.completion_v
                        ),
                    });
                }
            } else {
                match probe.hover_v {
                    Some(v) if v == lt => {}
                    Some(w) => {
                        let key = if older(w) { "stale-overwrite:newer-change" } else { "wrong-version:hover" };
                        fails.push(Fail {
                            key: key.into(),
                            what: format!(
                                "uri {u}: latest text is {lt} (sent as version {}), hover answers from text {w} ({:?})",
                                latest.lsp_version, probe.hover
                            ),
                        });
                    }
                    None => fails.push(Fail {
                        key: "missing:latest-not-served".into(),
                        what: format!("uri {u}: latest text is {lt} (open, parses), hover answers {:?}", probe.hover),
                    }),
                }
                // definition and completion must agree (only reported separately when hover is right)
                if probe.hover_v == Some(lt) {
                    if probe.def != Some((0, 0, 0, line0_len(latest))) || !probe.def_uri_ok {
                        fails.push(Fail {
                            key: "wrong-version:definition".into(),
                            what: format!(
                                "uri {u}: definition range {:?} (uri ok: {}) is not the declaration of V{lt} (0,0)-(0,{})",
                                probe.def,
                                probe.def_uri_ok,
                                line0_len(latest)
                            ),
                        });
                    }
                    if probe.completion_v != vec![lt] {
                        fails.push(Fail {
                            key: "wrong-version:completion".into(),
                            what: format!("uri {u}: completion offers V{:?}, expected exactly V{lt}", probe.completion_v),
                        });
                    }
                }
            }
            // ---- the last versioned publish for an open document is a report about its latest text
            match pubs.iter().rev().find(|m| m.version.is_some()) {
                None => fails.push(Fail {
                    key: "diagnostics:none-for-latest".into(),
                    what: format!("uri {u}: open at the end, but no versioned publishDiagnostics was ever sent for it"),
                }),
                Some(m) => {
                    let v = m.version.unwrap_or(-1);
                    if v != latest.lsp_version as i64 {
                        fails.push(Fail {
                            key: "diagnostics:last-not-latest".into(),
                            what: format!(
                                "uri {u}: the last versioned publishDiagnostics carries version {v}, the latest text {lt} was sent as version {}",
                                latest.lsp_version
                            ),
                        });
                    } else if let Err(why) = admissible(case, u, latest, m) {
                        fails.push(Fail {
                            key: "diagnostics:last-not-latest".into(),
                            what: format!("uri {u}: the last publishDiagnostics (version {v}) {why} — it was not computed from the latest text"),
                        });
                    }
                }
            }
        }

        // ---- every publish carrying version v was computed from one of the texts sent under version v, whoever
        //      published it (the document's own analysis, or the analysis of a document that imports it)
        for m in &pubs {
            let Some(v) = m.version else { continue };
            let candidates: Vec<&&Op> = texts.values().filter(|o| o.lsp_version as i64 == v).collect();
            if candidates.is_empty() {
                fails.push(Fail {
                    key: "diagnostics:unknown-version".into(),
                    what: format!("uri {u}: publishDiagnostics for version {v} which was never sent for this uri"),
                });
                continue;
            }
            let errs: Vec<String> = candidates.iter().filter_map(|o| admissible(case, u, o, m).err()).collect();
            if errs.len() == candidates.len() {
                fails.push(Fail { key: "diagnostics:wrong-text".into(), what: format!("uri {u}: publishDiagnostics version {v} {}", errs.join(" / ")) });
            }
        }
    }
    fails
}

/// Number of URIs whose publishes left the server out of history order: a versioned publish follows one with a
/// higher version, or follows the publish of a close that was sent after it. In this server the result of an
/// analysis is stored and its publish enqueued in the same poll, so this observes "a newer notification took effect
/// while the analysis of an older one was still suspended".
/// Lower bound on the number of versioned reports about imported documents that were sent by an importer's analysis:
/// for each imported document and version, versioned publishes beyond the first.
fn dependency_reports(case: &Case, run: &Run) -> u64 {
    let mut n = 0u64;
    for u in (0..case.n_uris).filter(|u| case.imported(*u)) {
        let mut per: BTreeMap<i64, u64> = BTreeMap::new();
        for m in run.msgs.iter().filter(|m| m.method == "textDocument/publishDiagnostics" && m.uri == Some(u)) {
            if let Some(v) = m.version {
                *per.entry(v).or_insert(0) += 1;
            }
        }
        n += per.values().map(|c| c.saturating_sub(1)).sum::<u64>();
    }
    n
}

fn publish_inversions(case: &Case, run: &Run) -> u32 {
    let mut n = 0;
    for u in 0..case.n_uris {
        let closes: Vec<i32> = case.ops.iter().filter(|o| o.uri == u && o.kind == Kind::Close).map(|o| o.version).collect();
        let mut high = 0i64; // highest history position (= version number) whose effect has been published
        let mut seen_closes = 0usize;
        let mut inverted = false;
        let imported = case.imported(u);
        for m in run.msgs.iter().filter(|m| m.method == "textDocument/publishDiagnostics" && m.uri == Some(u)) {
            let pos = match m.version {
                // wire versions may repeat: take the earliest text sent under v that keeps the sequence in order, if any
                Some(v) => {
                    let cands: Vec<i64> = case.ops.iter().filter(|o| o.uri == u && o.kind != Kind::Close && o.lsp_version as i64 == v).map(|o| o.version as i64).collect();
                    match cands.iter().copied().filter(|t| *t >= high).min() {
                        Some(t) => t,
                        None => cands.iter().copied().max().unwrap_or(high),
                    }
                }
                // importers publish unversioned reports for a dependency that is not open: not a close
                None if imported => continue,
                None => {
                    let p = closes.get(seen_closes).copied().unwrap_or(0) as i64;
                    seen_closes += 1;
                    p
                }
            };
            if pos < high {
                inverted = true;
            }
            high = high.max(pos);
        }
        if inverted {
            n += 1;
        }
    }
    n
}

// ------------------------------------------------------------------------------------------------ driver

fn effective_case(case: &Case, run: &Run) -> Case {
    Case { n_uris: case.n_uris, exec: case.exec, imports: case.imports.clone(), ops: case.ops.clone(), sched: run.effective.clone() }
}

fn replay_body(case: &Case, key: &str, what: &str, dir: &Path) -> String {
    // the stored schedule names handlers by history index; the trace is informational
    let run = execute(case, dir, true);
    let eff = effective_case(case, &run);
    let mut v = case_to_json(&eff);
    v["signature"] = json!(key);
    v["what"] = json!(what);
    v["texts"] = json!(case.ops.iter().filter(|o| o.kind != Kind::Close).map(|o| json!({"text_id": o.version, "sent_as_version": o.lsp_version, "text": text_of(o)})).collect::<Vec<_>>());
    v["dependency"] = json!({"dep.incn": DEP_SOURCE, "dep2.incn": DEP2_SOURCE});
    v["trace"] = json!(run.trace);
    serde_json::to_string_pretty(&v).unwrap()
}

fn classes_of(case: &Case) -> Vec<&'static str> {
    let mut c = Vec::new();
    c.push(match case.ops.len() {
        0..=3 => "history_len_2_3",
        4..=6 => "history_len_4_6",
        _ => "history_len_7_10",
    });
    c.push(match case.n_uris {
        1 => "uris_1",
        2 => "uris_2",
        _ => "uris_3",
    });
    let edges: usize = case.imports.iter().map(|l| l.len()).sum();
    c.push(match edges {
        0 => "imports_none",
        1 => "imports_1_edge",
        _ => "imports_2_3_edges",
    });
    if (0..case.n_uris).any(|u| case.imported(u) && case.ops.iter().any(|o| o.uri == u && o.broken != Broken::No) && case.ops.iter().any(|o| o.uri == u && o.kind != Kind::Close && o.broken == Broken::No)) {
        c.push("open_dependency_flips_parse_status");
    }
    c.push(if case.exec == Exec::Free { "executor_free" } else { "executor_serve_loop" });
    if case.ops.iter().any(|o| o.deps > 1) {
        c.push("has_two_dependency_text");
    }
    if case.ops.iter().any(|o| o.kind == Kind::Close) {
        c.push("has_close");
    }
    let mut seen_close = vec![false; case.n_uris];
    let mut reopen = false;
    for o in &case.ops {
        if o.kind == Kind::Close {
            seen_close[o.uri] = true;
        } else if o.kind == Kind::Open && seen_close[o.uri] {
            reopen = true;
        }
    }
    if reopen {
        c.push("has_reopen");
    }
    // version number chosen by a reopen, relative to the last number used for that document
    let mut last_lsp: Vec<Option<i32>> = vec![None; case.n_uris];
    let (mut same, mut lower, mut higher) = (false, false, false);
    for o in &case.ops {
        if o.kind == Kind::Open {
            if let Some(l) = last_lsp[o.uri] {
                match o.lsp_version.cmp(&l) {
                    std::cmp::Ordering::Equal => same = true,
                    std::cmp::Ordering::Less => lower = true,
                    std::cmp::Ordering::Greater => higher = true,
                }
            }
        }
        if o.kind != Kind::Close {
            last_lsp[o.uri] = Some(o.lsp_version);
        }
    }
    if same {
        c.push("reopen_same_version_number");
    }
    if lower {
        c.push("reopen_lower_version_number");
    }
    if higher {
        c.push("reopen_higher_version_number");
    }
    if case.ops.iter().any(|o| o.markers > 0) {
        c.push("has_semantic_error_marker");
    }
    if case.ops.iter().any(|o| o.broken != Broken::No) {
        c.push("has_broken_text");
    }
    for u in 0..case.n_uris {
        match case.ops.iter().rev().find(|o| o.uri == u) {
            Some(o) if o.kind == Kind::Close => c.push("ends_closed"),
            Some(o) if o.broken != Broken::No => c.push("ends_broken_latest"),
            Some(_) => c.push("ends_open"),
            None => c.push("uri_unused"),
        }
    }
    c
}

fn main() {
    let args = Args::parse("C18");
    util::install_quiet_panic_hook();
    let mut out = Outcome::new("C18");
    let mut ev = Evidence::new(
        &args,
        "a case is (history of didOpen/didChange/didClose, handler schedule). Non-trivial: during the run some handler \
         completed while the handler of an OLDER notification for the same URI was still in flight (suspended at a lock or \
         at a publish), i.e. a newer version or a close overtook an older analysis (measured by the harness at each \
         completion), or the publishes for a URI left the server out of history order (the newer notification took effect \
         while the older handler was suspended, although the older one returned first), or a handler for a document \
         completed while an older handler of a document that imports it (transitively) was still in flight. Distinct = \
         hash of (history, effective schedule).",
    );
    ev.assume("handlers are first polled in arrival order (futures::stream::buffer_unordered pushes into a FIFO ready queue); the `free` executor explores every later poll order, the `serve loop` executor only wake order (FIFO) with arbitrary drain/arrival timing");
    ev.assume("at most 4 handlers in flight (tower-lsp Server default max_concurrency)");
    ev.assume("version numbers on the wire increase inside an open session; a didOpen after a didClose may reuse the last number, restart at 1, go lower or higher. The latest text of a document is the text of its last notification in history order");
    ev.assume("documents may import each other (acyclic, up to 3 documents); a report about version v of a document is judged whoever sent it: it must be a report computable from text v — the full report (exactly v's markers), or, for a document that another one imports, the parse-level report an importer's analysis sends (empty list if v parses, lex/parse errors if not). That an importer's empty report hides the dependency's own type errors is incompleteness, not staleness, and is not judged");
    ev.assume("a text with a syntax/lexical error has no answerable declarations: for such a latest version hover/definition may answer nothing, but not from an older text");

    let dir = vcore::verif_root().join("work").join(format!("c18-{}-{}-{}", args.tier.name(), args.seed, std::process::id()));
    let _ = std::fs::remove_dir_all(&dir);
    if std::fs::create_dir_all(&dir).is_err() || std::fs::write(dir.join("dep.incn"), DEP_SOURCE).is_err() || std::fs::write(dir.join("dep2.incn"), DEP2_SOURCE).is_err() || (0..NAMES.len()).any(|u| std::fs::write(dir.join(format!("doc_{}.incn", NAMES[u])), disk_text(u)).is_err()) {
        out.inconclusive(&format!("cannot create scratch directory {}", dir.display()));
        std::process::exit(out.finish(&ev));
    }
    let dir = dir.canonicalize().unwrap_or(dir);
    let code = run_main(&args, &mut out, &mut ev, &dir);
    let _ = std::fs::remove_dir_all(&dir);
    let _ = code;
    std::process::exit(out.finish(&ev));
}

fn run_main(args: &Args, out: &mut Outcome, ev: &mut Evidence, dir: &Path) -> i32 {
    // ---- oracle self-check: a sequential run of a fixed history must satisfy the oracle's positive legs, and the
    //      marker / version extraction must see what the texts contain (otherwise the verdicts mean nothing)
    {
      for exec in [Exec::Free, Exec::Loop] {
        let c = Case {
            n_uris: 2,
            exec,
            imports: vec![vec![1], vec![]],
            ops: vec![
                Op { uri: 0, kind: Kind::Open, version: 1, lsp_version: 1, markers: 2, broken: Broken::No, deps: 2, imports: vec![1] },
                Op { uri: 1, kind: Kind::Open, version: 2, lsp_version: 2, markers: 0, broken: Broken::No, deps: 1, imports: vec![] },
                Op { uri: 1, kind: Kind::Close, version: 3, lsp_version: 2, markers: 0, broken: Broken::No, deps: 1, imports: vec![] },
            ],
            // strictly sequential: every handler runs to completion (with the socket drained) before the next starts
            sched: (0..3usize)
                .flat_map(|i| {
                    if exec == Exec::Free {
                        let mut v = vec![Act::Drain, Act::Drain, Act::Start];
                        for _ in 0..6 {
                            v.extend([Act::Drain, Act::Drain, Act::PollOp(i)]);
                        }
                        v
                    } else {
                        vec![Act::Cycle(9, 1), Act::Cycle(9, 0), Act::Cycle(9, 0), Act::Cycle(9, 0), Act::Cycle(9, 0)]
                    }
                })
                .collect(),
        };
        let r = execute(&c, dir, false);
        if let Some(e) = &r.setup_error {
            out.inconclusive(&format!("handshake failed: {e}"));
            return 2;
        }
        if r.hung {
            out.inconclusive("a strictly sequential open/open/close does not reach quiescence");
            return 2;
        }
        // the sequential schedule is a schedule like any other: what the oracle rejects here is a violation
        let fails = judge(&c, &r);
        if !fails.is_empty() {
            ev.case(None);
            ev.class("sequential_control_case");
            for f in fails {
                if out.seen(&f.key) {
                    continue;
                }
                let body = replay_body(&c, &f.key, &f.what, dir);
                out.violation(ev, &f.key, "json", &body, &format!("strictly sequential control history (open, open, close)\n{}", f.what));
            }
            continue;
        }
        // the oracle accepted the run: make sure it was able to see (version extraction from hover / definition /
        // completion, marker extraction from diagnostics, dependency publishes = the await points exist)
        let ok = r.panic.is_none()
            && r.probes.len() == 2
            && r.probes[0].hover_v == Some(1)
            && r.probes[0].def == Some((0, 0, 0, line0_len(&c.ops[0])))
            && r.probes[0].completion_v == vec![1]
            && r.probes[1].hover.is_none()
            && r.probes[1].completion_v.is_empty()
            && r.msgs.iter().any(|m| m.uri == Some(0) && m.version == Some(1) && m.markers.len() == 2)
            && r.msgs.iter().any(|m| m.uri == Some(1) && m.version == Some(2) && m.n_diags == 0)
            && r.msgs.iter().filter(|m| m.other_uri).count() == 3
            && r.overtakes == 0;
        if !ok {
            out.inconclusive(&format!(
                "oracle self-check failed: the oracle accepts a sequential open/open/close but the expected observations are \
                 missing (panic={:?} probes={:?} msgs={:?})",
                r.panic,
                r.probes,
                r.msgs.iter().map(describe).collect::<Vec<_>>()
            ));
            return 2;
        }
      }
    }

    // ---- replay
    if let Some(path) = &args.replay {
        let text = std::fs::read_to_string(path).unwrap_or_default();
        let Some(case) = serde_json::from_str::<Value>(&text).ok().and_then(|v| case_from_json(&v)) else {
            out.inconclusive(&format!("cannot read replay file {}", path.display()));
            return 2;
        };
        let run = execute(&case, dir, true);
        for l in &run.trace {
            println!("  {l}");
        }
        let nontrivial = run.overtakes > 0 || run.dep_overtakes > 0 || publish_inversions(&case, &run) > 0;
        ev.case(if nontrivial { Some(util::hash_of(&(&case.ops, &run.effective))) } else { None });
        ev.sample(case_to_json(&case));
        if run.hung || run.setup_error.is_some() {
            out.inconclusive(&format!("replay did not reach quiescence (hung={} setup={:?})", run.hung, run.setup_error));
            return 2;
        }
        for f in judge(&case, &run) {
            let body = replay_body(&case, &f.key, &f.what, dir);
            out.violation(ev, &f.key, "json", &body, &f.what);
        }
        return 0;
    }

    // ---- known findings: replay the canonical inputs
    let known: Vec<_> = out.known.open.clone();
    for e in &known {
        let still = std::fs::read_to_string(&e.replay)
            .ok()
            .and_then(|t| serde_json::from_str::<Value>(&t).ok())
            .and_then(|v| case_from_json(&v))
            .map(|c| {
                let r = execute(&c, dir, false);
                judge(&c, &r).iter().any(|f| f.key == e.key)
            })
            .unwrap_or(false);
        out.known_replayed(&e.key, still);
    }
    let allow_broken_latest = !out.is_known("stale-kept:syntax-error");

    // ---- regression cases: canonical inputs of the defects fixed in dcfca60 (and any other file in known/C18)
    {
        let kdir = vcore::verif_root().join("known").join("C18");
        let mut files: Vec<PathBuf> = std::fs::read_dir(&kdir)
            .map(|rd| rd.flatten().map(|e| e.path()).filter(|p| p.extension().is_some_and(|e| e == "json")).collect())
            .unwrap_or_default();
        files.sort();
        let open_replays: Vec<PathBuf> = known.iter().map(|e| e.replay.clone()).collect();
        for f in files {
            if open_replays.contains(&f) {
                continue; // handled above as an open known finding
            }
            let Some(case) = std::fs::read_to_string(&f).ok().and_then(|t| serde_json::from_str::<Value>(&t).ok()).and_then(|v| case_from_json(&v))
            else {
                continue;
            };
            let run = execute(&case, dir, false);
            if run.hung || run.setup_error.is_some() {
                out.inconclusive(&format!("regression case {} did not reach quiescence", f.display()));
                continue;
            }
            let nontrivial = run.overtakes > 0 || run.dep_overtakes > 0 || publish_inversions(&case, &run) > 0;
            ev.case(if nontrivial { Some(util::hash_of(&(&case.ops, &run.effective))) } else { None });
            ev.class("regression_canonical_input");
            for fl in judge(&case, &run) {
                if out.seen(&fl.key) {
                    ev.violations += 1;
                    continue;
                }
                let body = replay_body(&case, &fl.key, &fl.what, dir);
                out.violation(ev, &fl.key, "json", &body, &format!("regression case {}\n{}", f.display(), fl.what));
            }
        }
    }

    // ---- generated cases
    let total = args.tier.pick(6_000usize, 500_000usize);
    let chunk = 5_000usize;
    // diagnostic switch (not used by the tiers): `--exec free|loop` restricts the generator to one executor
    let force = match args.flag("exec") {
        Some("free") => Some(Exec::Free),
        Some("loop") => Some(Exec::Loop),
        _ => None,
    };
    let strat = case_strategy(allow_broken_latest, force);
    let mut runner = vcore::gen::runner(args.subseed(18));
    let mut done = 0usize;
    let mut hung_cases = 0u64;
    let mut overtake_cases = 0u64;
    let mut inverted_publish = 0u64;
    let mut stale_final_publish = 0u64;
    let mut conc_hist = [0u64; MAX_IN_FLIGHT + 1];
    let mut total_polls = 0u64;
    let mut total_msgs = 0u64;
    let mut sig_by_exec: BTreeMap<String, u64> = BTreeMap::new();
    let mut dep_overtake_cases = 0u64;
    let mut dep_versioned_publishes = 0u64;
    while done < total {
        let n = chunk.min(total - done);
        let mut trees = vcore::gen::batch(&strat, &mut runner, n);
        let cases: Vec<(Case, u64)> = trees.iter().map(|t| t.current()).collect();
        let results: Vec<(Run, Vec<Fail>)> = cases
            .par_iter()
            .map(|(c, _)| {
                let r = execute(c, dir, false);
                let f = if r.hung || r.setup_error.is_some() { Vec::new() } else { judge(c, &r) };
                (r, f)
            })
            .collect();
        for (i, ((case, excluded), (run, fails))) in cases.iter().zip(results.iter()).enumerate() {
            if let Some(e) = &run.setup_error {
                out.inconclusive(&format!("handshake failed: {e}"));
                return 2;
            }
            if run.hung {
                hung_cases += 1;
                if hung_cases == 1 {
                    let body = serde_json::to_string_pretty(&case_to_json(case)).unwrap();
                    let p = vcore::verif_root().join("work").join("c18-hung-case.json");
                    let _ = std::fs::write(&p, body);
                    out.inconclusive(&format!(
                        "quiescence not reached within {POLL_BOUND} polls (a handler never completes under round-robin polling); case saved to {}",
                        p.display()
                    ));
                }
                ev.discard("not_quiescent");
                continue;
            }
            let inversions = publish_inversions(case, run);
            let nontrivial = run.overtakes > 0 || inversions > 0 || run.dep_overtakes > 0;
            if run.dep_overtakes > 0 {
                ev.class("schedule_dependency_overtakes_importer");
                dep_overtake_cases += 1;
            }
            dep_versioned_publishes += dependency_reports(case, run);
            ev.case(if nontrivial { Some(util::hash_of(&(&case.ops, &run.effective))) } else { None });
            for c in classes_of(case) {
                ev.class(c);
            }
            if *excluded > 0 {
                ev.exclude_n("stale-kept:syntax-error", *excluded);
            }
            if nontrivial {
                overtake_cases += 1;
            }
            match (run.overtakes > 0, inversions > 0) {
                (true, true) => ev.class("schedule_overtake_and_publish_inversion"),
                (true, false) => ev.class("schedule_overtake_only"),
                (false, true) => ev.class("schedule_publish_inversion_only"),
                (false, false) => ev.class("schedule_in_order"),
            }
            inverted_publish += inversions as u64;
            conc_hist[run.max_in_flight.min(MAX_IN_FLIGHT)] += 1;
            total_polls += run.polls as u64;
            total_msgs += run.msgs.len() as u64;
            // statistics only (not verdicts): order of versioned publishes per URI
            for u in 0..case.n_uris {
                let vs: Vec<i64> = run
                    .msgs
                    .iter()
                    .filter(|m| m.uri == Some(u) && m.method == "textDocument/publishDiagnostics")
                    .filter_map(|m| m.version)
                    .collect();
                let last_sent = case.ops.iter().rev().find(|o| o.uri == u);
                if let (Some(o), Some(lastv)) = (last_sent, vs.last()) {
                    if o.kind != Kind::Close && *lastv != o.lsp_version as i64 {
                        stale_final_publish += 1;
                    }
                }
            }
            if ev.want_sample() && (nontrivial || i % 7 == 0) && i % 3 == 0 {
                let mut s = case_to_json(&effective_case(case, run));
                s["overtakes"] = json!(run.overtakes);
                s["polls"] = json!(run.polls);
                s["client_messages"] = json!(run.msgs.iter().map(describe).collect::<Vec<_>>());
                s["probes"] = json!(run.probes.iter().map(|p| json!({"hover_version": p.hover_v, "definition": p.def.map(|d| vec![d.0, d.1, d.2, d.3]), "completion_V": p.completion_v})).collect::<Vec<_>>());
                s["verdict"] = json!(if fails.is_empty() {
                    "held".to_string()
                } else {
                    format!("failed: {}", fails.iter().map(|f| f.key.clone()).collect::<BTreeSet<_>>().into_iter().collect::<Vec<_>>().join(", "))
                });
                ev.sample(s);
            }
            if fails.is_empty() {
                continue;
            }
            // group by key; shrink once per new key
            let mut keys: Vec<String> = Vec::new();
            for f in fails {
                if !keys.contains(&f.key) {
                    keys.push(f.key.clone());
                }
            }
            let mut tree_used = false;
            for key in &keys {
                *sig_by_exec.entry(format!("{}/{}", if case.exec == Exec::Free { "free" } else { "serve_loop" }, key)).or_insert(0) += 1;
            }
            for key in keys {
                if out.seen(&key) {
                    ev.violations += 1;
                    continue;
                }
                // proptest shrinks (history, schedule) together; a tree can be shrunk for one signature only, a
                // second signature of the same case starts from the generated value
                let small = if !tree_used {
                    tree_used = true;
                    vcore::gen::shrink(&mut trees[i], 600, |(c, _): &(Case, u64)| {
                        let r = execute(c, dir, false);
                        !r.hung && r.setup_error.is_none() && judge(c, &r).iter().any(|f| f.key == key)
                    })
                } else {
                    (case.clone(), 0)
                };
                let r = execute(&small.0, dir, false);
                // minimise on the self-contained schedule (everything that was executed, quiescence phase included)
                let eff = minimise_case(&Case { n_uris: small.0.n_uris, exec: small.0.exec, imports: small.0.imports.clone(), ops: small.0.ops.clone(), sched: r.full.clone() }, &key, dir);
                let r2 = execute(&eff, dir, false);
                let what = judge(&eff, &r2)
                    .iter()
                    .filter(|f| f.key == key)
                    .map(|f| f.what.clone())
                    .collect::<Vec<_>>()
                    .join("\n");
                let body = replay_body(&eff, &key, &what, dir);
                let hist: Vec<String> = eff.ops.iter().map(|o| format!("{:?}(uri{},text{},version{})", o.kind, o.uri, o.version, o.lsp_version)).collect();
                out.violation(ev, &key, "json", &body, &format!("history: {}\nschedule: {:?}\n{}", hist.join(" "), eff.sched, what));
            }
        }
        done += n;
    }
    ev.set("nontrivial_cases", json!(overtake_cases));
    ev.set("cases_where_dependency_handler_overtook_importer", json!(dep_overtake_cases));
    // versioned publishes for an imported document beyond one per own analysis = reports sent by importers' analyses
    ev.set("versioned_reports_about_open_dependencies_by_importers_lower_bound", json!(dep_versioned_publishes));
    ev.set(
        "nontrivial_fraction",
        json!(if ev.evaluations > 0 { overtake_cases as f64 / ev.evaluations as f64 } else { 0.0 }),
    );
    ev.set("uris_with_inverted_publish_order", json!(inverted_publish));
    ev.set("open_uris_whose_final_versioned_publish_is_not_latest", json!(stale_final_publish));
    ev.set("max_in_flight_histogram", json!({"1": conc_hist[1], "2": conc_hist[2], "3": conc_hist[3], "4": conc_hist[4], "0": conc_hist[0]}));
    ev.set("handler_polls", json!(total_polls));
    ev.set("client_messages", json!(total_msgs));
    // every failing case by executor and signature
    ev.set("failing_cases_by_executor_and_signature", json!(sig_by_exec));
    if ev.evaluations > 0 && (overtake_cases as f64) < 0.30 * ev.evaluations as f64 {
        out.inconclusive(&format!("generator drift: only {overtake_cases} of {} cases are non-trivial (< 30 %)", ev.evaluations));
    }
    0
}

/// Protocol-valid per URI (open first, change/close only while open, open only while closed), versions increasing.
fn valid_history(ops: &[Op], n_uris: usize) -> bool {
    let mut open = vec![false; n_uris];
    let mut cur = vec![0i32; n_uris];
    let mut last = 0;
    for o in ops {
        if o.uri >= n_uris || o.version <= last {
            return false;
        }
        last = o.version;
        match o.kind {
            Kind::Open if !open[o.uri] => open[o.uri] = true,
            Kind::Change if open[o.uri] => {
                if o.lsp_version <= cur[o.uri] {
                    return false;
                }
            }
            Kind::Close if open[o.uri] => open[o.uri] = false,
            _ => return false,
        }
        if o.kind != Kind::Close {
            if o.lsp_version < 1 {
                return false;
            }
            cur[o.uri] = o.lsp_version;
        }
    }
    true
}

/// Remove history entry `i`, repair the kinds (a change of a closed document becomes an open, an open of an open
/// document becomes a change, a close of a closed document disappears) and remap the schedule.
fn without_op(case: &Case, i: usize) -> Option<Case> {
    let mut removed = vec![false; case.ops.len()];
    removed[i] = true;
    let mut open = vec![false; case.n_uris];
    let mut ops = Vec::new();
    for (j, o) in case.ops.iter().enumerate() {
        if removed[j] {
            continue;
        }
        let mut o = o.clone();
        match (o.kind, open[o.uri]) {
            (Kind::Change, false) => o.kind = Kind::Open,
            (Kind::Open, true) => o.kind = Kind::Change,
            (Kind::Close, false) => {
                removed[j] = true;
                continue;
            }
            _ => {}
        }
        open[o.uri] = o.kind != Kind::Close;
        ops.push(o);
    }
    if ops.is_empty() {
        return None;
    }
    let new_index: Vec<Option<usize>> = {
        let mut k = 0;
        removed
            .iter()
            .map(|r| {
                if *r {
                    None
                } else {
                    k += 1;
                    Some(k - 1)
                }
            })
            .collect()
    };
    let mut sched = Vec::new();
    let mut starts = 0usize;
    for a in &case.sched {
        match *a {
            Act::Start => {
                // the k-th start launches history entry k
                let launched = starts;
                starts += 1;
                if launched < removed.len() && removed[launched] {
                    continue;
                }
                sched.push(Act::Start);
            }
            Act::PollOp(j) => {
                if let Some(Some(nj)) = new_index.get(j) {
                    sched.push(Act::PollOp(*nj));
                }
            }
            Act::Cycle(k, j) => {
                let gone = (starts..starts + j as usize).filter(|x| *x < removed.len() && removed[*x]).count();
                starts += j as usize;
                sched.push(Act::Cycle(k, j - gone as u8));
            }
            other => sched.push(other),
        }
    }
    Some(Case { n_uris: case.n_uris, exec: case.exec, imports: case.imports.clone(), ops, sched })
}

/// After proptest shrinking: greedy delta-debugging on the effective form (drop history entries, drop schedule
/// actions, simplify texts, renumber versions) to a fixpoint, keeping the signature. Every candidate is re-executed.
fn minimise_case(case: &Case, key: &str, dir: &Path) -> Case {
    let fails = |c: &Case| {
        if !valid_history(&c.ops, c.n_uris) {
            return false;
        }
        let r = execute(c, dir, false);
        !r.hung && r.setup_error.is_none() && judge(c, &r).iter().any(|f| f.key == key)
    };
    let mut cur = case.clone();
    if !fails(&cur) {
        return cur;
    }
    for _round in 0..6 {
        let mut changed = false;
        let mut i = 0;
        while i < cur.ops.len() {
            match without_op(&cur, i) {
                Some(t) if fails(&t) => {
                    cur = t;
                    changed = true;
                }
                _ => i += 1,
            }
        }
        let mut i = 0;
        while i < cur.sched.len() {
            let mut t = cur.clone();
            t.sched.remove(i);
            if fails(&t) {
                cur = t;
                changed = true;
            } else {
                i += 1;
            }
        }
        for i in 0..cur.ops.len() {
            if cur.ops[i].markers > 0 {
                let mut t = cur.clone();
                t.ops[i].markers = 0;
                if fails(&t) {
                    cur = t;
                    changed = true;
                }
            }
            if cur.ops[i].deps > 1 {
                let mut t = cur.clone();
                t.ops[i].deps = 1;
                if fails(&t) {
                    cur = t;
                    changed = true;
                }
            }
            if cur.ops[i].broken == Broken::Lex {
                let mut t = cur.clone();
                t.ops[i].broken = Broken::Syntax;
                if fails(&t) {
                    cur = t;
                    changed = true;
                }
            }
            if cur.ops[i].broken != Broken::No {
                let mut t = cur.clone();
                t.ops[i].broken = Broken::No;
                if fails(&t) {
                    cur = t;
                    changed = true;
                }
            }
        }
        // wire version = text id everywhere (no reuse of version numbers)
        if cur.ops.iter().any(|o| o.lsp_version != o.version) {
            let mut t = cur.clone();
            for o in t.ops.iter_mut() {
                o.lsp_version = o.version;
            }
            if fails(&t) {
                cur = t;
                changed = true;
            }
        }
        // no imports between the documents
        if cur.imports.iter().any(|l| !l.is_empty()) {
            let mut t = cur.clone();
            t.imports = vec![Vec::new(); t.n_uris];
            for o in t.ops.iter_mut() {
                o.imports.clear();
            }
            if fails(&t) {
                cur = t;
                changed = true;
            }
        }
        // fewest URIs (only when the documents are independent), versions 1..n
        let mut t = cur.clone();
        let independent = t.imports.iter().all(|l| l.is_empty());
        let used: BTreeSet<usize> = t.ops.iter().map(|o| o.uri).collect();
        let remap: BTreeMap<usize, usize> = used.iter().enumerate().map(|(k, u)| (*u, k)).collect();
        for (k, o) in t.ops.iter_mut().enumerate() {
            if independent {
                o.uri = remap[&o.uri];
            }
            o.version = k as i32 + 1;
        }
        if independent {
            t.n_uris = used.len().max(1);
            t.imports = vec![Vec::new(); t.n_uris];
        }
        if (t.n_uris != cur.n_uris || t.ops != cur.ops) && fails(&t) {
            cur = t;
            changed = true;
        }
        if !changed {
            break;
        }
    }
    cur
}
